---------------------------- MODULE MC_MatchSem ----------------------------
(***************************************************************************)
(* TLC-only part of C14: the scrutinee types, the pattern generator, the   *)
(* pools of matrices (exhaustive enumeration over small pattern sets and   *)
(* fixed-seed random matrices over the full depth-2 pattern sets), the     *)
(* model-level facts checked on every matrix, and replay-record printing.  *)
(***************************************************************************)
EXTENDS MatchSem, Json, Randomization

CONSTANTS
    Sel,        \* set of pool names to generate (see Pools)
    NRand,      \* random matrices per type and arm count
    FullLemma   \* check RegionLemma over u8 = 0..255 (else only the cheap facts)

S == INSTANCE SwaySem

(***************************************************************************)
(* Scrutinee types                                                         *)
(***************************************************************************)
TBool == [k |-> "bool"]
TU8   == [k |-> "u8"]
TUnit == [k |-> "unit"]
Tup(ts) == [k |-> "tuple", ts |-> ts]
Ea == [k |-> "enum", name |-> "Ea", ts |-> <<TUnit, TBool, TU8>>]
Eb == [k |-> "enum", name |-> "Eb", ts |-> <<Tup(<<TBool, TBool>>), Ea>>]
Sa == [k |-> "struct", name |-> "Sa", ts |-> <<TBool, TU8>>]
Sb == [k |-> "struct", name |-> "Sb", ts |-> <<Ea, TBool, TBool>>]
Ec == [k |-> "enum", name |-> "Ec", ts |-> <<TUnit, Sa>>]

Types == [ bool |-> TBool, u8 |-> TU8, Ea |-> Ea, Eb |-> Eb, Ec |-> Ec, Sa |-> Sa, Sb |-> Sb,
           bb |-> Tup(<<TBool, TBool>>), bu |-> Tup(<<TBool, TU8>>), eb |-> Tup(<<Ea, TBool>>),
           bbb |-> Tup(<<TBool, TBool, TBool>>), uu |-> Tup(<<TU8, TU8>>), es |-> Tup(<<Ea, Sa>>) ]

FieldName(i) == <<"f", "g", "h">>[i]

(***************************************************************************)
(* Pattern generator.  Pats(t, d, nm, b, o, L): patterns of type t with at *)
(* most d nested constructors; nm = binder name at this position; b =      *)
(* binders allowed; o = or-patterns allowed; L = u8 literal pool.          *)
(***************************************************************************)
Lit(n) == [k |-> "lit", t |-> "u8", b |-> <<n>>]
Bind(x) == [k |-> "bind", x |-> x]

Atoms(t, nm, b, L) ==
    {Wild} \cup (IF b THEN {Bind(nm)} ELSE {})
    \cup (CASE t.k = "bool" -> { [k |-> "bool", v |-> TRUE], [k |-> "bool", v |-> FALSE] }
            [] t.k = "u8" -> { Lit(n) : n \in L }
            [] OTHER -> {})

\* ways to write the field list of a struct pattern with n fields: <<order written, has `..`>>
RECURSIVE IncSeqs(_, _)
IncSeqs(i, n) ==    \* increasing sequences over i..n
    IF i > n THEN { <<>> }
    ELSE LET r == IncSeqs(i + 1, n) IN r \cup { <<i>> \o s : s \in r }
Forms(n) ==
    { <<[i \in 1..n |-> i], FALSE>>, <<[i \in 1..n |-> n + 1 - i], FALSE>> }
    \cup { <<s, TRUE>> : s \in { x \in IncSeqs(1, n) : Len(x) < n } }

RECURSIVE Pats(_, _, _, _, _, _), Simple(_, _, _, _, _, _), PProd(_, _, _, _, _, _, _), FProd(_, _, _, _, _, _, _, _)
Simple(t, d, nm, b, o, L) ==
    Atoms(t, nm, b, L) \cup
    (IF d = 0 THEN {} ELSE
     CASE t.k = "tuple" -> { [k |-> "tuple", ps |-> ps] : ps \in PProd(t.ts, 1, d - 1, nm, b, o, L) }
       [] t.k = "struct" ->
            UNION { { [k |-> "struct", name |-> t.name, rest |-> f[2], fs |-> fs]
                      : fs \in FProd(t, f[1], 1, d - 1, nm, b, o, L) } : f \in Forms(Len(t.ts)) }
       [] t.k = "enum" ->
            UNION { { [k |-> "variant", name |-> t.name, v |-> i - 1, p |-> q]
                      : q \in (IF t.ts[i].k = "unit" THEN {Wild}
                               ELSE Pats(t.ts[i], d - 1, nm \o ToString(i), b, o, L)) } : i \in DOMAIN t.ts }
       [] OTHER -> {})
\* or-patterns: two alternatives without binders and without nested or-patterns
Pats(t, d, nm, b, o, L) ==
    Simple(t, d, nm, b, o, L) \cup
    (IF ~o THEN {} ELSE
     LET A == Simple(t, d, "", FALSE, FALSE, L) IN { [k |-> "or", ps |-> <<p1, p2>>] : p1 \in A, p2 \in A })
PProd(ts, i, d, nm, b, o, L) ==
    IF i > Len(ts) THEN { <<>> }
    ELSE { <<h>> \o r : h \in Pats(ts[i], d, nm \o ToString(i), b, o, L), r \in PProd(ts, i + 1, d, nm, b, o, L) }
FProd(t, ord, j, d, nm, b, o, L) ==
    IF j > Len(ord) THEN { <<>> }
    ELSE { <<[i |-> ord[j], p |-> h]>> \o r :
             h \in Pats(t.ts[ord[j]], d, FieldName(ord[j]), b, o, L), r \in FProd(t, ord, j + 1, d, nm, b, o, L) }

(***************************************************************************)
(* Pools.  A pool element is [ty |-> type name, M |-> matrix].             *)
(***************************************************************************)
L3 == {0, 1, 255}
L5 == {0, 1, 3, 254, 255}

\* top-level binder allowed, nested binders not, no or-patterns
Small(t) == Simple(t, 2, "b", FALSE, FALSE, L3) \cup { Bind("b") }
\* small set plus top-level or-patterns of binder-free atoms (bool, u8 only)
SmallOr(t) == Small(t) \cup
    { [k |-> "or", ps |-> <<p1, p2>>] : p1 \in Atoms(t, "", FALSE, L3), p2 \in Atoms(t, "", FALSE, L3) }
Full(t) == Pats(t, 2, "b", TRUE, TRUE, L5)

SeqsUpTo(P, n) == UNION { [1..m -> P] : m \in 1..n }
AsSeq(f) == [i \in 1..Len(f) |-> f[i]]

Exh(ty, P, n) == { [ty |-> ty, M |-> AsSeq(f)] : f \in SeqsUpTo(P, n) }
\* random matrices with 2..4 arms: half of the arms drawn from the or-free patterns
Rnd(ty, n) ==
    LET F == Full(Types[ty])
        G == Pats(Types[ty], 2, "b", TRUE, FALSE, L5)
    IN UNION { { [ty |-> ty, M |-> AsSeq(f)] : f \in RandomSubset(NRand, [1..m -> F]) }
               \cup { [ty |-> ty, M |-> AsSeq(f)] : f \in RandomSubset(NRand, [1..m -> G]) } : m \in 2..n }

\* (an operator, not a constant: TLC evaluates constant definitions eagerly at start-up)
Pool(s) ==
    CASE s = "x_bool" -> Exh("bool", SmallOr(TBool), 3)
      [] s = "x_u8"   -> Exh("u8", SmallOr(TU8), 2)
      [] s = "x_Ea"   -> Exh("Ea", Small(Ea), 3)
      [] s = "x_bb"   -> Exh("bb", Small(Types["bb"]), 3)
      [] s = "x_bu"   -> Exh("bu", Small(Types["bu"]), 3)
      [] s = "x_eb"   -> Exh("eb", Small(Types["eb"]), 2)
      [] s = "x_Sa"   -> Exh("Sa", Small(Sa), 2)
      [] s = "x_Eb"   -> Exh("Eb", Small(Eb), 2)
      [] s = "x_Ec"   -> Exh("Ec", Small(Ec), 2)
      [] s = "x_bbb"  -> Exh("bbb", Small(Types["bbb"]), 2)
      [] s = "x_Sb"   -> Exh("Sb", Small(Sb), 1)
      [] s = "r_u8"   -> Rnd("u8", 4)
      [] s = "r_Ea"   -> Rnd("Ea", 4)
      [] s = "r_Eb"   -> Rnd("Eb", 4)
      [] s = "r_Ec"   -> Rnd("Ec", 4)
      [] s = "r_Sa"   -> Rnd("Sa", 4)
      [] s = "r_Sb"   -> Rnd("Sb", 4)
      [] s = "r_bb"   -> Rnd("bb", 4)
      [] s = "r_bu"   -> Rnd("bu", 4)
      [] s = "r_eb"   -> Rnd("eb", 4)
      [] s = "r_bbb"  -> Rnd("bbb", 4)
      [] s = "r_uu"   -> Rnd("uu", 4)
      [] s = "r_es"   -> Rnd("es", 3)

VARIABLE m
vars == <<m>>

Init == \E s \in Sel : m \in Pool(s)
Next == FALSE /\ UNCHANGED m
Spec == Init /\ [][Next]_vars

(***************************************************************************)
(* Agreement with the dynamic semantics used by C01 (SwaySem.Match /       *)
(* EvalMatch): same vocabulary, struct patterns normalised to "all fields  *)
(* in declaration order".                                                  *)
(***************************************************************************)
RECURSIVE Norm(_, _)
Norm(p, t) ==
    CASE p.k = "tuple" -> [k |-> "tuple", ps |-> [i \in DOMAIN p.ps |-> Norm(p.ps[i], t.ts[i])]]
      [] p.k = "struct" ->
            [k |-> "struct", name |-> p.name,
             ps |-> [i \in DOMAIN t.ts |->
                        IF \E j \in DOMAIN p.fs : p.fs[j].i = i
                        THEN Norm(p.fs[CHOOSE j \in DOMAIN p.fs : p.fs[j].i = i].p, t.ts[i]) ELSE Wild]]
      [] p.k = "variant" -> [k |-> "variant", name |-> p.name, v |-> p.v, p |-> Norm(p.p, t.ts[p.v + 1])]
      [] p.k = "or" -> [k |-> "or", ps |-> [i \in DOMAIN p.ps |-> Norm(p.ps[i], t)]]
      [] OTHER -> p

\* the arm SwaySem's EvalMatch takes: first i with Match(arms[i].p, v).m
RECURSIVE SwayArm(_, _, _, _)
SwayArm(M, t, v, i) ==
    IF i > Len(M) THEN 0 ELSE IF S!Match(Norm(M[i], t), v).m THEN i ELSE SwayArm(M, t, v, i + 1)

AgreesWithSwaySem(M, t) == \A v \in AbsVal(t, M) : Arm(M, v) = SwayArm(M, t, v, 1)

(***************************************************************************)
(* Model-level facts, checked on every generated matrix                    *)
(***************************************************************************)
T == Types[m.ty]

WellFormed == \A i \in DOMAIN m.M : WF(m.M[i], T)
Facts ==
    /\ ExhaustiveIffWildUseless(m.M, T)
    /\ BelowCatchAllDead(m.M, T)
    /\ ArmTotalIffExhaustive(m.M, T)
    /\ ReachableIffRuns(m.M, T)
    /\ WitnessExists(m.M, T)
    /\ AgreesWithSwaySem(m.M, T)
\* u8 leaves of the full value space: at most two u8 leaves keeps it below 2^17 values
Lemma == FullLemma => RegionLemma(m.M, T)

(***************************************************************************)
(* Replay records: the matrix, its abstract value space and the verdicts   *)
(***************************************************************************)
SE == INSTANCE SequencesExt

Record ==
    LET M == m.M
        vs == SE!SetToSeq(AbsVal(T, M))
    IN [ ty |-> m.ty, t |-> T, M |-> M,
         exh |-> Exhaustive(M, T),
         unreach |-> Unreachable(M, T),
         vals |-> vs,
         arm |-> [j \in DOMAIN vs |-> Arm(M, vs[j])] ]

PrintReplay == PrintT(<<"REPLAY", ToJson(Record)>>)
=============================================================================
