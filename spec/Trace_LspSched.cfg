\* Trace_LspSched.tla: TRACE=<observed events .ndjson>; all threads a schedule may use
CONSTANTS NChange = 3  NSave = 1  NWait = 2
          NChecksFull = 7  TailFullCode = 1122110  NChecksCached = 2  TailCachedCode = 10
          FixNotify = TRUE  FixOpen = TRUE  FixClear = TRUE  FixSave = TRUE
          KnownMechs = {}
SPECIFICATION TraceSpec
POSTCONDITION Accepted
CHECK_DEADLOCK FALSE
