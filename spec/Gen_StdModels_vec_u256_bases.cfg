\* generated once by the C27 builder; see MC_StdModels.tla
CONSTANTS
  MKind = "vec"
  MEty = "u256"
  Prefixes <- PrefBases2
  OpNames = {"push", "pop", "clear", "clone", "insert", "remove", "set", "swap", "resize", "get", "iter"}
  MaxOps = 2
  NumSel <- NumSel_none
SPECIFICATION GenSpec
INVARIANT TypeInv
INVARIANT PrintLeaf
CHECK_DEADLOCK FALSE
