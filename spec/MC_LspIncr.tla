---------------------------- MODULE MC_LspIncr ----------------------------
(* TLC-only additions to LspIncr: replay-record printing and per-mechanism   *)
(* counterexample extraction (configurations with KeepHist = TRUE).          *)
EXTENDS LspIncr, Json, IOUtils

\* one replay record per complete history
PrintReplay ==
    (KeepHist /\ phase = "idle" /\ steps = MaxHist) =>
        PrintT(<<"REPLAY", ToJson([steps |-> hist, mech |-> mech])>>)

\* every history (of any length) that ends in a completed compilation: exhaustive short pools
PrintAllReplay ==
    (KeepHist /\ phase = "idle" /\ steps > 1) =>
        PrintT(<<"REPLAY", ToJson([steps |-> hist, mech |-> mech])>>)

\* A shortest history per mechanism, in one breadth-first run with one worker (MC_LspIncr_ce.cfg): the first state
\* that exhibits a mechanism not seen before prints its history (registers 11.. remember which were seen); the
\* search stops as soon as every mechanism of AllMechs has been seen (invariant StopWhenAllSeen fails: expected).
\* A mechanism that is not reachable any more is simply never printed.
MechNo(m) == CASE m = "ReuseTypedSibling" -> 11 [] m = "ReuseTypedDropsDiags" -> 12
               [] m = "CancelledEditStaleTyped" -> 13 [] m = "StaleTokensOtherFile" -> 14
               [] m = "DanglingDeclAfterGC" -> 15 [] m = "FailedEditStaleTyped" -> 16 [] OTHER -> 17
CEInit == Init /\ \A i \in 11..17 : TLCSet(i, 0)
NoteMechs ==
    (phase \in {"idle", "dead"}) =>
        \A m \in mech :
            TLCGet(MechNo(m)) = 0 =>
                /\ PrintT(<<"REPLAY", ToJson([steps |-> hist, mech |-> mech, target |-> m, dead |-> phase = "dead"])>>)
                /\ TLCSet(MechNo(m), 1)
StopWhenAllSeen == \E m \in AllMechs : TLCGet(MechNo(m)) = 0
=============================================================================
