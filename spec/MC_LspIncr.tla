---------------------------- MODULE MC_LspIncr ----------------------------
(* TLC-only additions to LspIncr: replay-record printing and per-mechanism   *)
(* counterexample extraction (configurations with KeepHist = TRUE).          *)
EXTENDS LspIncr, Json, IOUtils

\* one replay record per complete history
PrintReplay ==
    (KeepHist /\ phase = "idle" /\ steps = MaxHist) =>
        PrintT(<<"REPLAY", ToJson([steps |-> hist, mech |-> mech])>>)

\* every history (of any length) that ends in a completed compilation: exhaustive short pools
PrintAllReplay ==
    (KeepHist /\ phase = "idle" /\ steps > 1) =>
        PrintT(<<"REPLAY", ToJson([steps |-> hist, mech |-> mech])>>)

\* The mechanism named by the environment variable MECH is unreachable.  Breadth-first search makes the
\* counterexample a shortest history exhibiting it; the history is printed before the invariant fails.
Target == IOEnv.MECH
TargetUnreachable ==
    ((phase \in {"idle", "dead"}) /\ Target \in mech) =>
        (PrintT(<<"REPLAY", ToJson([steps |-> hist, mech |-> mech, dead |-> phase = "dead"])>>) /\ FALSE)
=============================================================================
