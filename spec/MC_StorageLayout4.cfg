\* every declaration with <= 4 fields over the small pool (sizes 1, 8, 24, 48, 40-with-unit-variant, 40 bytes)
CONSTANT UnitWord = 0
CONSTANT MaxFields = 4
CONSTANT PoolSel = "small"
CONSTANT NP2 = 0
CONSTANT NP3 = 0
SPECIFICATION Spec
INVARIANT InvReadBack
INVARIANT InvDisjoint
INVARIANT InvFieldIds
INVARIANT InvImgSize
INVARIANT InvEncAgrees
INVARIANT InvWellNamed
CHECK_DEADLOCK FALSE
