------------------------------ MODULE ParseInv ------------------------------
(***************************************************************************)
(* C16: the lexer and the parser never crash and report in-bounds spans.   *)
(*                                                                         *)
(* The parser is an opaque function; what a model contributes is (1) the   *)
(* INPUT POOL, specified and enumerated here instead of sampled, and (2)   *)
(* the accept rule for a recorded parse event.                             *)
(*                                                                         *)
(* (1) LexAtoms: an alphabet of lexical atoms, chosen so that every branch *)
(* of sway-parse/src/token.rs has its trigger and its awkward neighbours   *)
(* (identifier start / continue, raw-identifier prefix, digits and radix   *)
(* prefixes, `_`, suffix, quotes and escape heads, comment openers and     *)
(* closers, every delimiter, punctuation, 2/3/4-byte letters, non-XID      *)
(* multi-byte symbols, a combining mark, ZWJ, a bidi override, non-ASCII   *)
(* white space, BOM, CR, LF, NUL, DEL).  The names are rendered to text by *)
(* vh-parse (atom_text).                                                   *)
(*   AtomInit/Next every atom string of length <= K over Alphabet (BFS).   *)
(*   MutInit/Next  token-level mutations of seed files: insert an atom,    *)
(*                 delete, duplicate, swap neighbours, unbalance (delete a *)
(*                 delimiter), cut (truncate); depth 1 exhaustively; depth *)
(*                 2 (PairNext) exhaustively for two insertions of         *)
(*                 state-changing atoms at the same / neighbouring         *)
(*                 position.  Seeds come from IOEnv.SEEDS as [ntok, delims]*)
(*   DescInit      mutation descriptors <<op, quantile, atom>> applied to  *)
(*                 every .sw file of the repository at position            *)
(*                 quantile * ntok / Q.                                    *)
(*                                                                         *)
(* (2) A parse event is [len, cont, lex, lexc, parse, nspans, smin, emax,  *)
(* mind, hi]: the input length in bytes, the offsets of its UTF-8          *)
(* continuation bytes (the complement of the char boundaries), the outcome *)
(* of lex / lex_commented / parse_file, and the spans seen, aggregated:    *)
(* their number, the least start, the greatest end, the least (end-start), *)
(* and the end points that address a non-ASCII byte (an offset that        *)
(* addresses an ASCII byte or equals len is a char boundary by the         *)
(* definition of UTF-8).  Parse(e) is enabled only for the outcomes the    *)
(* property allows: a result or diagnostics.  There is no action for       *)
(* "panic", "abort" (stack overflow, SIGSEGV), "timeout" or "silent" (an   *)
(* error without any diagnostic), so a trace containing one is not a       *)
(* behaviour.                                                              *)
(***************************************************************************)
EXTENDS Naturals, Integers, Sequences, FiniteSets, TLC

----------------------------------------------------------------------------
(* LexAtoms *)
AllAtoms == <<
    "a", "Z", "r", "rhash", "fn", "let",                 \* identifier start / keywords / raw prefix
    "d7", "d0", "hex", "bin", "oct", "us", "e", "u8",    \* numbers: digits, radix prefixes, `_`, exponent-like, suffix
    "dot", "dq", "sq", "bs", "escx", "escu", "escn",     \* `.`, quotes, escape heads
    "lc", "ldoc", "lidoc", "bo", "bc", "slash", "star",  \* comments
    "lp", "rp", "lb", "rb", "lk", "rk",                  \* delimiters
    "semi", "colon", "comma", "eq", "lt", "gt", "minus", "hash", "bang", "amp", "pipe",
    "l2", "l3", "l4", "sym3", "emoji", "comb", "zwj", "rlo", "nbsp", "bom",
    "cr", "lf", "sp", "tab", "nul", "del" >>

\* a core that keeps length-4 enumeration feasible: one representative per lexer branch
CoreAtoms == <<
    "a", "rhash", "d7", "d0", "hex", "us", "u8", "dot", "dq", "sq", "bs", "escx", "escu",
    "lc", "bo", "bc", "slash", "lp", "rp", "lb", "rb", "semi", "colon", "hash",
    "l2", "l3", "l4", "emoji", "zwj", "lf", "nul" >>

\* atoms inserted by mutations (the ones that change the lexer's state)
MutAtoms == <<
    "a", "rhash", "d0", "hex", "us", "dot", "dq", "sq", "bs", "escu", "lc", "bo", "bc",
    "lp", "rp", "lb", "rb", "lk", "rk", "semi", "comma", "gt", "hash",
    "l2", "l4", "emoji", "zwj", "rlo", "bom", "cr", "lf", "nul" >>

Range(f) == { f[k] : k \in DOMAIN f }

----------------------------------------------------------------------------
(* AtomSpec: all atom strings of length <= K *)
CONSTANTS K, Alphabet
VARIABLE s
AtomInit0 == s = <<>>
AtomNext0 == Len(s) < K /\ \E a \in Range(Alphabet) : s' = Append(s, a)

----------------------------------------------------------------------------
(* MutSpec: mutations of seed files.  `toks` is the current token list: n > 0 stands for the   *)
(* n-th token of the seed, -k for an inserted atom MutAtoms[k] (all integers: TLC cannot       *)
(* compare integers with strings); `ops` is the history that vh-parse replays on the seed.     *)
CONSTANTS NSeeds, SeedTok(_), SeedDelims(_), MaxOps
VARIABLES seed, toks, ops
mvars == <<seed, toks, ops>>

MutInit0 == seed \in 1..NSeeds /\ toks = [k \in 1..SeedTok(seed) |-> k] /\ ops = <<>>

Del(q, p) == SubSeq(q, 1, p - 1) \o SubSeq(q, p + 1, Len(q))
Ins(q, p, x) == SubSeq(q, 1, p - 1) \o <<x>> \o SubSeq(q, p, Len(q))

Insert(p, k) == /\ p \in 1..(Len(toks) + 1) /\ k \in DOMAIN MutAtoms
                /\ toks' = Ins(toks, p, 0 - k) /\ ops' = Append(ops, <<"ins", p, MutAtoms[k]>>)
Delete(p)    == /\ p \in 1..Len(toks)
                /\ toks' = Del(toks, p) /\ ops' = Append(ops, <<"del", p>>)
Duplicate(p) == /\ p \in 1..Len(toks)
                /\ toks' = Ins(toks, p, toks[p]) /\ ops' = Append(ops, <<"dup", p>>)
Swap(p)      == /\ p \in 1..(Len(toks) - 1)
                /\ toks' = [toks EXCEPT ![p] = toks[p+1], ![p+1] = toks[p]]
                /\ ops' = Append(ops, <<"swap", p>>)
\* delete a delimiter of the seed: unbalances the nesting
Unbalance(p) == /\ p \in 1..Len(toks) /\ toks[p] \in SeedDelims(seed)
                /\ toks' = Del(toks, p) /\ ops' = Append(ops, <<"unb", p>>)
\* truncate: unclosed delimiters / strings / comments at the end of the input
Cut(p)       == /\ p \in 2..Len(toks)
                /\ toks' = SubSeq(toks, 1, p - 1) /\ ops' = Append(ops, <<"cut", p>>)

MutNext0 ==
    /\ Len(ops) < MaxOps
    /\ UNCHANGED seed
    /\ \E p \in 1..(Len(toks) + 1) :
          \/ \E k \in DOMAIN MutAtoms : Insert(p, k)
          \/ Delete(p) \/ Duplicate(p) \/ Swap(p) \/ Unbalance(p) \/ Cut(p)

\* Double mutations, exhaustively for the interacting case: two insertions of state-changing atoms
\* at the same or at neighbouring positions (quote + quote, comment opener + multi-byte letter, ...).
NastyAtoms == { k \in DOMAIN MutAtoms : MutAtoms[k] \in {"dq", "sq", "bo", "rb", "l4", "bs"} }
PairNext0 ==
    /\ Len(ops) < 2
    /\ UNCHANGED seed
    /\ IF ops = <<>>
       THEN \E p \in 1..(Len(toks) + 1), k \in NastyAtoms : Insert(p, k)
       ELSE \E p \in {ops[1][2], ops[1][2] + 1}, k \in NastyAtoms : Insert(p, k)

----------------------------------------------------------------------------
(* DescSpec: position-independent mutation descriptors for arbitrary files *)
CONSTANT Q
VARIABLE desc
DescInit0 ==
    desc \in ({"del", "dup", "swap", "cut"} \X (0..(Q - 1)) \X {"-"})
             \cup ({"ins"} \X (0..Q) \X Range(MutAtoms))

----------------------------------------------------------------------------
(* The accept rule *)
Outcomes == {"ok", "diag"}          \* a result (tokens / tree), or diagnostics

SpansInBounds(e) ==
    e.nspans > 0 => /\ 0 <= e.smin
                    /\ e.mind >= 0                 \* every span has start <= end
                    /\ e.emax <= e.len
SpansOnBoundaries(e) ==
    \A k \in DOMAIN e.hi : \A c \in DOMAIN e.cont : e.hi[k] # e.cont[c]

VARIABLES seen, last
pvars == <<seen, last>>
ParseInit0 == seen = 0 /\ last = [len |-> 0, cont |-> <<>>, nspans |-> 0, smin |-> 0, emax |-> 0,
                                 mind |-> 0, hi |-> <<>>]
\* one call of lex, lex_commented and parse_file on one input
Parse(e) ==
    /\ e.lex \in Outcomes /\ e.lexc \in Outcomes /\ e.parse \in Outcomes
    /\ seen' = seen + 1
    /\ last' = [len |-> e.len, cont |-> e.cont, nspans |-> e.nspans, smin |-> e.smin, emax |-> e.emax,
                mind |-> e.mind, hi |-> e.hi]
    /\ UNCHANGED <<s, seed, toks, ops, desc>>

----------------------------------------------------------------------------
(* The four machines share one module; each specification leaves the other machines' variables idle. *)
IdleAtoms == s = <<>>
IdleMut   == seed = 0 /\ toks = <<>> /\ ops = <<>>
IdleDesc  == desc = <<>>
IdleParse == ParseInit0
AtomInit  == AtomInit0 /\ IdleMut /\ IdleDesc /\ IdleParse
AtomNext  == AtomNext0 /\ UNCHANGED <<mvars, desc, pvars>>
MutInit   == MutInit0 /\ IdleAtoms /\ IdleDesc /\ IdleParse
MutNext   == MutNext0 /\ UNCHANGED <<s, desc, pvars>>
PairNext  == PairNext0 /\ UNCHANGED <<s, desc, pvars>>
DescInit  == DescInit0 /\ IdleAtoms /\ IdleMut /\ IdleParse
DescNext  == FALSE /\ UNCHANGED <<s, mvars, desc, pvars>>
ParseInit == ParseInit0 /\ IdleAtoms /\ IdleMut /\ IdleDesc
allvars   == <<s, mvars, desc, pvars>>

\* the property's second sentence, as a state invariant
SpanInvariant == SpansInBounds(last) /\ SpansOnBoundaries(last)
=============================================================================
