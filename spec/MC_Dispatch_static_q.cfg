\* quick tier: contracts with 1..3 methods
CONSTANT MaxCalls = 0
CONSTANT MaxSize = 3
CONSTANT PoolN = 12
CONSTANT GenStride = 1
SPECIFICATION StaticSpec
INVARIANT InvDispatchExact
INVARIANT InvUnique
CHECK_DEADLOCK FALSE
