------------------------ MODULE Trace_PlanSession ------------------------
(***************************************************************************)
(* Trace validation for X01: the event stream written by vh-plan (real     *)
(* forc_pkg::BuildPlan::from_lock_and_manifests on real Forc.toml /        *)
(* Forc.lock files) must be a behaviour of PlanSession.                    *)
(*   Start : a new session (base manifests, no lock)                       *)
(*   Env   : one environment action; the projected lock file after it must *)
(*           be the model's lock                                           *)
(*   Plan  : one planning step with the recorded --locked flag: the model  *)
(*           runs StartPlan, ReadManifests, LoadLock, ValidateLock,        *)
(*           Resolve, Emit (in the RECORDED order), OrderStuck/OrderDone,  *)
(*           WriteLock; the recorded outcome, error class, node set, edge  *)
(*           set (with names), order, lock before/after and "text changed" *)
(*           must equal the model's                                        *)
(*   Hang  : planning did not return; accepted iff the model says so.      *)
(***************************************************************************)
EXTENDS PlanSession, Json, IOUtils

Rec == ndJsonDeserialize(IOEnv.TRACE)

VARIABLES l, busy      \* current record; its planning step is in progress

tvars == <<vars, l, busy>>

TriplesOf(s) == { <<s[i][1], s[i][2], s[i][3]>> : i \in DOMAIN s }
NodeIds(s) == { s[i][1] : i \in DOMAIN s }
KindsOK(s) == \A i \in DOMAIN s : s[i][2] = (IF s[i][1] = Root THEN "member" ELSE "path")
Odd == [st |-> "odd", nodes |-> {}, edges |-> {}]
LockOf(p) ==
    IF p.st = "graph"
      THEN IF KindsOK(p.nodes) /\ Cardinality(NodeIds(p.nodes)) = Len(p.nodes)
                /\ Cardinality(TriplesOf(p.edges)) = Len(p.edges)
             THEN [st |-> "graph", nodes |-> NodeIds(p.nodes), edges |-> TriplesOf(p.edges)]
             ELSE Odd
    ELSE IF p.st = "none" THEN NoLock
    ELSE IF p.st = "garbage" THEN Garbage
    ELSE Odd

Mark(k) == TLCSet(1, IF TLCGet(1) < k THEN k ELSE TLCGet(1))

TraceInit ==
    /\ l = 1 /\ busy = FALSE
    /\ man = {} /\ lock = NoLock
    /\ pc = "idle" /\ locked = FALSE /\ g = EmptyG /\ cause = FALSE /\ loaded = EmptyG
    /\ emitted = <<>> /\ res = NoRes /\ nenv = 0
    /\ TLCSet(1, 1)

TrStart ==
    /\ l <= Len(Rec) /\ ~busy /\ pc = "idle"
    /\ Rec[l].ev = "Start"
    /\ Rec[l].n <= N
    /\ man' = TriplesOf(Rec[l].base)
    /\ man' \subseteq Triples
    /\ lock' = NoLock /\ res' = NoRes /\ nenv' = 0
    /\ l' = l + 1 /\ Mark(l + 1)
    /\ UNCHANGED <<pc, planvars, busy>>

TrEnv ==
    /\ l <= Len(Rec) /\ ~busy
    /\ Rec[l].ev = "Env"
    /\ Rec[l].applied
    /\ Env(Act(Rec[l].a, Rec[l].p, Rec[l].d, Rec[l].q))
    /\ LockOf(Rec[l].lock) = lock'
    /\ l' = l + 1 /\ Mark(l + 1)
    /\ UNCHANGED busy

TrPlanStart ==
    /\ l <= Len(Rec) /\ ~busy
    /\ Rec[l].ev \in {"Plan", "Hang"}
    /\ StartPlan(Rec[l].locked)
    /\ IF Rec[l].ev = "Plan" THEN LockOf(Rec[l].before) = lock ELSE TRUE
    /\ busy' = TRUE /\ l' = l

TrInternal ==
    /\ busy
    /\ ReadManifests \/ LoadLock \/ ValidateLock \/ Resolve \/ OrderStuck \/ OrderDone \/ WriteLock
    /\ UNCHANGED <<l, busy>>

\* the recorded order drives the planner (an error outcome leaves the choice free)
TrEmit ==
    /\ busy /\ pc = "order"
    /\ IF Rec[l].ev = "Plan" /\ Rec[l].out = "ok"
         THEN /\ Len(emitted) < Len(Rec[l].order)
              /\ Rec[l].order[Len(emitted) + 1] \in Pkgs
              /\ Emit(Rec[l].order[Len(emitted) + 1])
         ELSE \E a \in Pkgs : Emit(a)
    /\ UNCHANGED <<l, busy>>

Agrees(r) ==
    IF r.ev = "Hang" THEN res.out = "hang"
    ELSE /\ r.out = res.out /\ r.cls = res.cls
         /\ LockOf(r.after) = lock
         /\ r.text_changed = res.wrote
         /\ IF r.out = "ok"
              THEN /\ KindsOK(r.nodes) /\ Len(r.nodes) = Cardinality(res.nodes) /\ NodeIds(r.nodes) = res.nodes
                   /\ Len(r.edges) = Cardinality(res.edges) /\ TriplesOf(r.edges) = res.edges
                   /\ Len(r.order) = Len(res.order)
                   /\ \A i \in DOMAIN r.order : r.order[i] = res.order[i]
                   /\ r.manifest_map_complete
              ELSE TRUE

\* EveryManifestEntryPlanned is judged on every accepted unlocked planning step; a violation is printed
\* (and the replay goes on) instead of stopping TLC once per history
TrPlanDone ==
    /\ busy /\ pc = "idle"
    /\ Agrees(Rec[l])
    /\ IF res.out = "ok" /\ ~locked /\ ~AllEntriesPlanned(man, res)
         THEN PrintT(<<"PROPERTY-VIOLATED", "EveryManifestEntryPlanned", Rec[l].id, Rec[l].step>>)
         ELSE TRUE
    /\ busy' = FALSE /\ l' = l + 1 /\ Mark(l + 1)
    /\ UNCHANGED vars

TraceNext == TrStart \/ TrEnv \/ TrPlanStart \/ TrInternal \/ TrEmit \/ TrPlanDone

TraceSpec == TraceInit /\ [][TraceNext]_tvars

Accepted ==
    IF TLCGet(1) = Len(Rec) + 1 THEN TRUE
    ELSE Print(<<"FIRST-UNMATCHED", TLCGet(1), ToJson(Rec[TLCGet(1)])>>, FALSE)
=============================================================================
