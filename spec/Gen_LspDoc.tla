----------------------------- MODULE Gen_LspDoc -----------------------------
(***************************************************************************)
(* Replay-record generation for C23: histories enumerated breadth-first    *)
(* (exhaustive for the configured families) and a fixed-seed simulation    *)
(* pool for longer documents / histories.                                  *)
(***************************************************************************)
EXTENDS MC_LspDoc

CONSTANTS MaxEdits,     \* number of changes per history
          SimPick       \* simulation: candidate positions drawn per step

(***************************************************************************)
(* replay records   : histories <<open(init), change, change, ...>>        *)
(*    The generator follows the "apply" branch of a lenient change; a      *)
(*    breadth-first history ends after an unspecified or rejected change   *)
(*    (the generator's document is unchanged, so longer histories repeat   *)
(*    shorter ones).  The expectation is informative; Trace_LspDoc decides.*)
(***************************************************************************)
VARIABLES hist, stopped

HEntry(e, o) == [full |-> e.full, r |-> e.r, t |-> e.t, x |-> o.k, why |-> o.why, d |-> o.doc]

GenInit == doc \in InitDocs /\ hist = << HEntry(FullChange(doc), Outcome(<<>>, FullChange(doc))) >> /\ stopped = FALSE

\* the changes tried at step n of a history (n = 1: all of EditsOf; later steps: a thinner family)
CONSTANT Texts2         \* replacement texts for steps >= 2
EditsAt(d, n) ==
    IF n = 1 THEN EditsOf(d) ELSE EditsOver(CorePositions(d), Texts2)

GenStep(e) ==
    LET o == Outcome(doc, e)
    IN /\ CASE o.k = "apply"  -> Incremental(e, FALSE, o.doc)
            [] o.k = "reject" -> Invalid(e, TRUE, doc)
            [] o.k = "either" -> Lenient(e, FALSE, o.doc)
            [] o.k = "unspec" -> Unspecified(e, FALSE, doc)
       /\ hist' = Append(hist, HEntry(e, o))
       /\ stopped' = (o.k \in {"unspec", "reject"})    \* document unchanged: extending adds nothing new

GenNext ==
    /\ ~stopped /\ Len(hist) <= MaxEdits
    /\ \/ \E e \in EditsAt(doc, Len(hist)) : GenStep(e)
       \/ \E t \in Texts2 : Len(hist) >= 2 /\ t # <<>> /\
              Full(t, FALSE, t) /\ hist' = Append(hist, HEntry(FullChange(t), Outcome(doc, FullChange(t)))) /\ UNCHANGED stopped

GenSpec == GenInit /\ [][GenNext]_<<doc, hist, stopped>>

Leaf == stopped \/ Len(hist) = MaxEdits + 1
PrintReplay == Leaf => PrintT(<<"REPLAY", ToJson([h |-> hist])>>)

\* --- simulation pool: a few random positions per step instead of all of them
SimEdits(d) ==
    LET S == RandomSubset(SimPick, CorePositions(d)) \cup RandomSubset(1, Positions(d))
        T == RandomSubset(2, Texts)
    IN { RangeChange(<<p[1], p[2], q[1], q[2]>>, t) : p \in S, q \in S, t \in T }

\* simulation histories go on after rejected / unspecified changes (the real server's text may then
\* differ from the generator's: the trace specification follows the server)
SimStep(e) ==
    LET o == Outcome(doc, e)
    IN /\ CASE o.k = "apply"  -> Incremental(e, FALSE, o.doc)
            [] o.k = "reject" -> Invalid(e, TRUE, doc)
            [] o.k = "either" -> Lenient(e, FALSE, o.doc)
            [] o.k = "unspec" -> Unspecified(e, FALSE, doc)
       /\ hist' = Append(hist, HEntry(e, o))
       /\ UNCHANGED stopped

\* one random successor per step (RandomSubset is deterministic under -seed): a full-text change every
\* tenth step, otherwise one change drawn from SimEdits (its text dropped if the document would grow
\* beyond MaxLen)
SimNext ==
    /\ Len(hist) <= MaxEdits
    /\ IF Len(hist) % 10 = 9
       THEN \E t \in RandomSubset(1, InitDocs) :
              Full(t, FALSE, t) /\ hist' = Append(hist, HEntry(FullChange(t), Outcome(doc, FullChange(t)))) /\ UNCHANGED stopped
       ELSE \E e0 \in RandomSubset(1, SimEdits(doc)) :
              LET e == IF Len(Outcome(doc, e0).doc) > MaxLen THEN RangeChange(e0.r, <<>>) ELSE e0
              IN SimStep(e)

SimSpec == GenInit /\ [][SimNext]_<<doc, hist, stopped>>
=============================================================================
