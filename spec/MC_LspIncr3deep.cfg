\* exhaustive (thorough, deep): the sibling pair (main, a, b), one initial item per module, histories of 6 client actions (opening + 5)
\* edit, cancellation, histories of <= 4 client actions (the opening of main included)
CONSTANTS
  Mods = {"main", "a", "b"}
  NNames = 2
  MaxItems = 2
  MaxHist = 6
  Kinds = {"add", "delete", "rename", "sig", "arg", "ws"}
  CancelAt = {1}
  Inits = {"small"}
  KeepHist = FALSE
SPECIFICATION Spec
INVARIANT TypeOK
INVARIANT MechComplete
INVARIANT MechSound
INVARIANT NoUnlistedMechanism
INVARIANT ReopenReuses
INVARIANT RecheckShape
INVARIANT TypedCurrentUnlessUncommitted
CHECK_DEADLOCK FALSE
