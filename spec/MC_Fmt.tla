------------------------------- MODULE MC_Fmt -------------------------------
(***************************************************************************)
(* Exhaustive sanity model of the C19 transducer (FmtTransducer) on small  *)
(* token strings.                                                          *)
(*                                                                         *)
(* Inputs: a fixed list of seed token strings, one or more per context in  *)
(* which a rewrite is (or must not be) allowed.  Outputs: every string     *)
(* obtained from the seed by at most `Edits` token-level edits (delete a   *)
(* token, insert a token of the edit alphabet, swap neighbours) -- legal   *)
(* cosmetic rewrites and illegal changes alike.  TLC runs the transducer   *)
(* on every (seed, output) pair, all behaviours, and checks on every       *)
(* accepted pair properties that are stated independently of the moves:    *)
(*   EssentialPreserved  the non-cosmetic tokens are the same (same order; *)
(*                       same bag when `use` statements are involved)      *)
(*   TuplesPreserved     the number of tuples (non-argument-list `(..)`    *)
(*                       groups with a top-level comma) is the same, so a  *)
(*                       parenthesised expression never becomes a tuple    *)
(*   FewAlternatives     at most 2 moves are enabled in any state (the     *)
(*                       acceptor needs no deep backtracking: validation   *)
(*                       stays linear)                                     *)
(* and, in the POSTCONDITION, that the identity and a list of expected     *)
(* rewrites are accepted and a list of meaning-changing edits is rejected. *)
(***************************************************************************)
EXTENDS FmtTransducer

CONSTANT Edits

I(x) == <<"i", x>>
P(x) == <<"p", x>>
O(x) == <<"o", x>>
C(x) == <<"c", x>>
L(x) == <<"l", x>>

Seeds == <<
  (* 1*) << I("f"), O("("), I("x"), C(")"), P(";") >>,                                   \* call
  (* 2*) << I("f"), O("("), I("x"), P(","), C(")"), P(";") >>,
  (* 3*) << I("return"), O("("), I("x"), C(")"), P(";") >>,                               \* paren expr
  (* 4*) << I("return"), O("("), I("x"), P(","), C(")"), P(";") >>,                       \* 1-tuple
  (* 5*) << I("t"), P("="), O("("), I("x"), P(","), I("y"), C(")"), P(";") >>,            \* tuple
  (* 6*) << I("S"), O("{"), I("a"), P(":"), I("x"), C("}") >>,                            \* struct
  (* 7*) << O("["), I("x"), P(","), I("y"), P(","), C("]") >>,
  (* 8*) << I("fn"), I("f"), O("("), C(")"), P("-"), P(">"), O("("), I("T"), C(")"), O("{"), C("}") >>,
  (* 9*) << I("fn"), I("f"), O("("), C(")"), P("-"), P(">"), O("("), I("T"), P(","), C(")"), P(";") >>,
  (*10*) << I("use"), I("a"), P(":"), P(":"), O("{"), I("b"), C("}"), P(";") >>,
  (*11*) << I("use"), I("a"), P(":"), P(":"), O("{"), I("c"), P(","), I("b"), C("}"), P(";") >>,
  (*12*) << I("use"), I("a"), P(":"), P(":"), O("{"), I("c"), P(","), I("b"), P(":"), P(":"), O("{"), I("d"), C("}"), C("}"), P(";") >>,
  (*13*) << I("fn"), I("f"), P("<"), I("T"), P(">"), O("("), I("x"), C(")"), I("where"), I("T"), P(":"), I("A"), O("{"), C("}") >>,
  (*14*) << I("g"), P(":"), P(":"), P("<"), I("T"), P(">"), O("("), I("x"), C(")"), P(";") >>,
  (*15*) << I("if"), I("a"), P(">"), O("("), I("x"), C(")"), O("{"), C("}") >>,
  (*16*) << I("enum"), I("E"), O("{"), I("A"), P(":"), O("("), I("u64"), C(")"), P(","), C("}") >>,
  (*17*) << I("x"), P("="), I("a"), P("+"), O("("), I("b"), P("-"), I("c"), C(")"), P(";") >>,
  (*18*) << I("enum"), I("E"), O("{"), I("A"), P(":"), O("("), I("G"), P("<"), I("a"), P(","), I("b"), P(">"), C(")"), P(","), C("}") >>
>>

S(n) == Seeds[n]
\* rewrites the formatter makes: must be accepted
MustAccept == {
    <<S(1), << I("f"), O("("), I("x"), P(","), C(")"), P(";") >> >>,                       \* f(x) -> f(x,)
    <<S(2), S(1)>>,                                                                        \* f(x,) -> f(x)
    <<S(6), << I("S"), O("{"), I("a"), P(":"), I("x"), P(","), C("}") >> >>,
    <<S(7), << O("["), I("x"), P(","), I("y"), C("]") >> >>,
    <<S(5), << I("t"), P("="), O("("), I("x"), P(","), I("y"), P(","), C(")"), P(";") >> >>,  \* 2-tuple gets a trailing comma
    <<S(8), << I("fn"), I("f"), O("("), C(")"), P("-"), P(">"), I("T"), O("{"), C("}") >> >>,  \* -> (T)  ->  -> T
    <<S(10), << I("use"), I("a"), P(":"), P(":"), I("b"), P(";") >> >>,                     \* {b} -> b
    <<S(11), << I("use"), I("a"), P(":"), P(":"), O("{"), I("b"), P(","), I("c"), C("}"), P(";") >> >>,  \* sorted
    <<S(13), << I("fn"), I("f"), P("<"), I("T"), P(">"), O("("), I("x"), C(")"), I("where"), I("T"), P(":"), I("A"), P(","), O("{"), C("}") >> >>,
    <<S(14), << I("g"), P(":"), P(":"), P("<"), I("T"), P(">"), O("("), I("x"), P(","), C(")"), P(";") >> >>,
    <<S(16), << I("enum"), I("E"), O("{"), I("A"), P(":"), I("u64"), P(","), C("}") >> >>,
    <<S(18), << I("enum"), I("E"), O("{"), I("A"), P(":"), I("G"), P("<"), I("a"), P(","), I("b"), P(">"), P(","), C("}") >> >> }

\* meaning-changing edits: must be rejected
MustReject == {
    <<S(3), S(4)>>,                                                                        \* (x) -> (x,)
    <<S(4), S(3)>>,                                                                        \* (x,) -> (x)
    <<S(9), << I("fn"), I("f"), O("("), C(")"), P("-"), P(">"), O("("), I("T"), C(")"), P(";") >> >>,   \* -> (T,) -> (T)
    <<S(15), << I("if"), I("a"), P(">"), O("("), I("x"), P(","), C(")"), O("{"), C("}") >> >>,
    <<S(17), << I("x"), P("="), I("a"), P("+"), I("b"), P("-"), I("c"), P(";") >> >>,       \* a+(b-c) -> a+b-c
    <<S(1), << I("f"), O("("), C(")"), P(";") >> >>,                                        \* dropped argument
    <<S(11), << I("use"), I("a"), P(":"), P(":"), I("c"), P(";") >> >>,                     \* dropped import
    <<S(5), << I("t"), P("="), O("("), I("y"), P(","), I("x"), C(")"), P(";") >> >>,        \* swapped elements
    <<S(1), << I("f"), O("("), P(","), I("x"), C(")"), P(";") >> >>,
    <<S(5), << I("t"), P("="), I("x"), P(","), I("y"), P(";") >> >> }                            \* tuple parens dropped

EditAlphabet == { P(","), O("("), C(")"), O("{"), C("}"), I("x"), I("b"), P(";") }

Delete(s, k)    == SubSeq(s, 1, k - 1) \o SubSeq(s, k + 1, Len(s))
Insert(s, k, t) == SubSeq(s, 1, k - 1) \o <<t>> \o SubSeq(s, k, Len(s))
Swap(s, k)      == [s EXCEPT ![k] = s[k+1], ![k+1] = s[k]]

Edit1(s) ==
    { Delete(s, k) : k \in 1..Len(s) }
    \cup { Insert(s, k, t) : k \in 1..(Len(s) + 1), t \in EditAlphabet }
    \cup { Swap(s, k) : k \in 1..(Len(s) - 1) }

Variants(s) ==
    IF Edits = 0 THEN {s}
    ELSE IF Edits = 1 THEN {s} \cup Edit1(s)
    ELSE {s} \cup Edit1(s) \cup UNION { Edit1(v) : v \in Edit1(s) }

\* partner map of the delimiters, computed the way the lexer groups them (0 = unmatched)
RECURSIVE PartnersAux(_, _, _, _)
PartnersAux(s, k, stack, acc) ==
    IF k > Len(s) THEN acc
    ELSE IF IsOpen(s[k]) THEN PartnersAux(s, k + 1, <<k>> \o stack, acc)
    ELSE IF IsClose(s[k]) /\ stack # <<>>
         THEN PartnersAux(s, k + 1, Tail(stack), [acc EXCEPT ![k] = Head(stack), ![Head(stack)] = k])
    ELSE PartnersAux(s, k + 1, stack, acc)
Partners(s) == PartnersAux(s, 1, <<>>, [k \in 1..Len(s) |-> 0])

Closer(x) == IF x = "(" THEN ")" ELSE IF x = "{" THEN "}" ELSE "]"
\* stand-in for "the output parses": all delimiters are matched with the right kind
Balanced(s) ==
    LET p == Partners(s) IN
    \A k \in 1..Len(s) :
        /\ (IsOpen(s[k]) \/ IsClose(s[k])) => p[k] # 0
        /\ IsOpen(s[k]) => s[p[k]][2] = Closer(s[k][2])

MkPair(a, b) == [cin |-> a, pin |-> Partners(a), cout |-> b, pout |-> Partners(b),
                 min |-> <<>>, mout |-> <<>>, parses |-> Balanced(b)]

Identity(x) == x

MCInit ==
    /\ pair \in UNION { { MkPair(Seeds[n], b) : b \in Variants(Seeds[n]) } : n \in DOMAIN Seeds }
               \cup { MkPair(x[1], x[2]) : x \in MustAccept \cup MustReject }
    /\ i = 1 /\ j = 1 /\ ci = 1 /\ cj = 1 /\ pend = <<>> /\ done = <<>>
    /\ TLCSet(1, {})

\* the accepting step registers the pair (single worker)
MCAccept ==
    /\ Related
    /\ TLCSet(1, TLCGet(1) \cup {<<cin, cout>>})
    /\ UNCHANGED vars

MCNext == Next \/ MCAccept
MCSpec == MCInit /\ [][MCNext]_vars

----------------------------------------------------------------------------
Cosmetic == { P(","), O("("), C(")"), O("{"), C("}") }
Ess(s) == SelectSeq(s, LAMBDA t : t \notin Cosmetic)
HasUse(s) == \E k \in DOMAIN s : IsId(s[k], "use")

EssentialPreserved ==
    Related => IF HasUse(cin) THEN BagOf(Ess(cin)) = BagOf(Ess(cout)) ELSE Ess(cin) = Ess(cout)

TupleCount(s) ==
    LET p == Partners(s) IN
    Cardinality({ o \in DOMAIN s : /\ s[o] = LParen /\ p[o] > o
                                  /\ ~CallLike(s, p, o)
                                  /\ TopCommaInType(s, p, o + 1, p[o], 0) })   \* `,` in `<..>` is not a tuple comma
TuplesPreserved == Related => TupleCount(cin) = TupleCount(cout)

B2N(b) == IF b THEN 1 ELSE 0
EnabledMoves ==
    B2N(CanCopy(cin, cout, i, j, pend)) + B2N(CanAddTrailingComma(cin, pin, cout, i, j, pend))
    + B2N(CanDropTrailingComma(cin, pin, cout, i, j, pend)) + B2N(CanDropOpenParen(cin, pin, i, pend))
    + B2N(CanDropCloseParen(i, pend)) + B2N(CanUseStmt(cin, pin, cout, pout, i, j, pend))
FewAlternatives == EnabledMoves <= 2

----------------------------------------------------------------------------
Expectations ==
    LET acc == TLCGet(1)
        missing == { x \in MustAccept : x \notin acc } \cup { <<S(n), S(n)>> : n \in { m \in DOMAIN Seeds : <<S(m), S(m)>> \notin acc } }
        wrong == { x \in MustReject : x \in acc }
    IN IF missing = {} /\ wrong = {} THEN PrintT(<<"ACCEPTED-PAIRS", Cardinality(acc)>>)
       ELSE /\ PrintT(<<"NOT-ACCEPTED", missing>>)
            /\ PrintT(<<"WRONGLY-ACCEPTED", wrong>>)
            /\ FALSE
=============================================================================
