CONSTANT CheckRT = TRUE
SPECIFICATION TraceSpec
POSTCONDITION Accepted
CHECK_DEADLOCK FALSE
