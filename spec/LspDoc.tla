------------------------------ MODULE LspDoc ------------------------------
(***************************************************************************)
(* LSP text document synchronisation (C23).                                *)
(*                                                                         *)
(* A document is a sequence of Unicode scalar values (code points as       *)
(* naturals).  The client edits its copy and tells the server with         *)
(* textDocument/didChange; a change is either the full text or a range     *)
(* (start/end position) plus a replacement text.  A position is            *)
(* (line, character) with `character` counted in UTF-16 code units (the    *)
(* protocol default; sway-lsp negotiates no other encoding).               *)
(*                                                                         *)
(* Outcome(d, e) says what the protocol requires of the server's copy:     *)
(*   "apply"  the server must hold exactly o.doc and report no error       *)
(*   "reject" the range denotes nothing in the document: the server must   *)
(*            report an error and leave its copy unchanged                 *)
(*   "either" LSP leaves open whether the range is an error; the server    *)
(*            must do one of the two things above, nothing else            *)
(*   "unspec" client-defined territory (position inside a surrogate pair,  *)
(*            a document containing a lone CR, a character beyond the      *)
(*            visible end of a CRLF-terminated line): only "no crash" is   *)
(*            required                                                     *)
(*                                                                         *)
(* What LSP 3.17 fixes, and is used below:                                 *)
(*  - character offsets count UTF-16 code units;                           *)
(*  - "If the character value is greater than the line length it defaults  *)
(*    back to the line length";                                            *)
(*  - "Positions are line end character agnostic. So you can not specify   *)
(*    a position that denotes \r|\n or \n|" : the line length excludes the *)
(*    terminator; where exactly an over-long character lands on a CRLF     *)
(*    line (before or after the \r) is not stated -> "unspec";             *)
(*  - EOL is one of \n, \r\n, \r ; the server under test (like most)       *)
(*    splits on \n only, so a lone \r makes line numbering client-defined  *)
(*    -> "unspec" for every ranged change on such a document;              *)
(*  - nothing is said about a line number beyond the document.  The        *)
(*    property calls such a range invalid; the one position every server   *)
(*    and client use beyond the last line, (line >= LineCount, 0) meaning  *)
(*    end-of-document, is accepted either way ("either").                  *)
(***************************************************************************)
EXTENDS Naturals, Sequences, FiniteSets, TLC

LF == 10
CR == 13

\* alphabet used by the exhaustive configurations (the operators work on any code point)
CpA     == 97        \* a   1 byte  1 unit
CpEAcute == 233      \* é   2 bytes 1 unit
CpEuro  == 8364      \* €   3 bytes 1 unit
CpClef  == 119070    \* 𝄞   4 bytes 2 units (surrogate pair D834 DD1E)

Units16(c) == IF c >= 65536 THEN 2 ELSE 1
Bytes8(c)  == IF c < 128 THEN 1 ELSE IF c < 2048 THEN 2 ELSE IF c < 65536 THEN 3 ELSE 4

\* replace offsets so..eo (0-based, number of elements before the position) of s by t
Splice(s, so, eo, t) == SubSeq(s, 1, so) \o t \o SubSeq(s, eo + 1, Len(s))

(***************************************************************************)
(* Line structure (on scalars).  Offsets are 0-based: "number of scalars   *)
(* before the position".  A line record: s = offset of its first scalar,   *)
(* v = offset of its visible end (before the terminator), crlf = the line  *)
(* is terminated by \r\n.                                                  *)
(***************************************************************************)
LineRec(d, s, e, terminated) ==
    LET crlf == terminated /\ e > s /\ d[e] = CR
    IN [s |-> s, v |-> IF crlf THEN e - 1 ELSE e, crlf |-> crlf]

RECURSIVE Scan(_, _, _)
Scan(d, i, s) ==          \* i: next index to look at (1-based), s: start offset of the current line
    IF i > Len(d) THEN << LineRec(d, s, Len(d), FALSE) >>
    ELSE IF d[i] = LF THEN << LineRec(d, s, i - 1, TRUE) >> \o Scan(d, i + 1, i)
    ELSE Scan(d, i + 1, s)

Lines(d) == Scan(d, 1, 0)
LineCount(d) == Len(Lines(d))

HasLoneCR(d) == \E i \in 1..Len(d) : d[i] = CR /\ (i = Len(d) \/ d[i + 1] # LF)

RECURSIVE UnitsIn(_, _, _)
UnitsIn(d, a, b) == IF a >= b THEN 0 ELSE Units16(d[a + 1]) + UnitsIn(d, a + 1, b)   \* units of d[a+1..b]

LineUnits(d, ln) == UnitsIn(d, ln.s, ln.v)

(***************************************************************************)
(* Position -> offset.                                                     *)
(*  k = "exact"    the position denotes offset off                         *)
(*      "clamp"    character beyond the end of an LF-terminated / last     *)
(*                 line: LSP clamps to the line length (off)               *)
(*      "pastcrlf" the same on a CRLF-terminated line: unspecified         *)
(*      "split"    character falls between the two units of a pair         *)
(*      "eof"      line beyond the document, character 0                   *)
(*      "beyond"   line beyond the document, character > 0                 *)
(***************************************************************************)
RECURSIVE Walk(_, _, _, _)
Walk(d, i, v, rem) ==
    IF rem = 0 THEN [k |-> "exact", off |-> i]
    ELSE IF i = v THEN [k |-> "past", off |-> v]
    ELSE LET u == Units16(d[i + 1])
         IN IF rem < u THEN [k |-> "split", off |-> i] ELSE Walk(d, i + 1, v, rem - u)

ResolveIn(d, L, line, ch) ==
    IF line >= Len(L)
    THEN [k |-> IF ch = 0 THEN "eof" ELSE "beyond", off |-> Len(d)]
    ELSE LET ln == L[line + 1]
             w  == Walk(d, ln.s, ln.v, ch)
         IN IF w.k = "past" THEN [k |-> IF ln.crlf THEN "pastcrlf" ELSE "clamp", off |-> ln.v] ELSE w

Resolve(d, line, ch) == ResolveIn(d, Lines(d), line, ch)

PosLE(l1, c1, l2, c2) == l1 < l2 \/ (l1 = l2 /\ c1 <= c2)

(***************************************************************************)
(* Changes.  [full |-> TRUE, t |-> text] or                                *)
(* [full |-> FALSE, r |-> <<startLine, startChar, endLine, endChar>>, t]   *)
(***************************************************************************)
FullChange(t)     == [full |-> TRUE,  r |-> <<>>, t |-> t]
RangeChange(r, t) == [full |-> FALSE, r |-> r,    t |-> t]

UnspecKinds == {"split", "pastcrlf"}

Outcome(d, e) ==
    IF e.full THEN [k |-> "apply", doc |-> e.t, why |-> "full"]
    ELSE IF HasLoneCR(d) THEN [k |-> "unspec", doc |-> d, why |-> "loneCR"]
    ELSE LET L  == Lines(d)
             ps == ResolveIn(d, L, e.r[1], e.r[2])
             pe == ResolveIn(d, L, e.r[3], e.r[4])
         IN IF ps.k \in UnspecKinds THEN [k |-> "unspec", doc |-> d, why |-> ps.k]
            ELSE IF pe.k \in UnspecKinds THEN [k |-> "unspec", doc |-> d, why |-> pe.k]
            ELSE IF ps.k = "beyond" \/ pe.k = "beyond" THEN [k |-> "reject", doc |-> d, why |-> "beyond"]
            ELSE IF ps.off > pe.off THEN [k |-> "reject", doc |-> d, why |-> "startAfterEnd"]
            ELSE LET nd == Splice(d, ps.off, pe.off, e.t)
                 IN IF ps.k = "eof" \/ pe.k = "eof" THEN [k |-> "either", doc |-> nd, why |-> "eof"]
                    ELSE IF ~PosLE(e.r[1], e.r[2], e.r[3], e.r[4])
                         THEN [k |-> "either", doc |-> nd, why |-> "clampedEqual"]
                    ELSE [k |-> "apply", doc |-> nd,
                          why |-> IF ps.k = "clamp" \/ pe.k = "clamp" THEN "clamp" ELSE "exact"]

(***************************************************************************)
(* One didChange notification = a sequence of changes applied in order.    *)
(* Allowed(d0, cs, err, nd): the server may answer the notification cs on  *)
(* document d0 with (error reported = err, resulting copy = nd).  When a   *)
(* change in the middle is rejected the protocol does not say whether the  *)
(* earlier changes of the same notification stay applied: both are allowed.*)
(***************************************************************************)
RECURSIVE AllowedFrom(_, _, _, _, _, _)
AllowedFrom(d0, d, cs, i, err, nd) ==
    IF i > Len(cs) THEN ~err /\ nd = d
    ELSE LET o == Outcome(d, cs[i])
         IN CASE o.k = "apply"  -> AllowedFrom(d0, o.doc, cs, i + 1, err, nd)
              [] o.k = "reject" -> err /\ nd \in {d, d0}
              [] o.k = "either" -> (err /\ nd \in {d, d0}) \/ AllowedFrom(d0, o.doc, cs, i + 1, err, nd)
              [] o.k = "unspec" -> TRUE

Allowed(d0, cs, err, nd) == AllowedFrom(d0, d0, cs, 1, err, nd)

(***************************************************************************)
(* The state machine: doc is the text both sides must hold.                *)
(* Action parameters (err, nd) are the server's observable answer.         *)
(***************************************************************************)
VARIABLE doc

Open(t) == doc' = t                                   \* didOpen / initial load

Full(t, err, nd) ==                                   \* a full-text change always succeeds
    /\ ~err /\ nd = t
    /\ doc' = nd

Incremental(e, err, nd) ==                            \* a well-defined ranged change
    /\ ~e.full /\ Outcome(doc, e).k = "apply"
    /\ ~err /\ nd = Outcome(doc, e).doc
    /\ doc' = nd

Invalid(e, err, nd) ==                                \* invalid range: reported, document untouched
    /\ ~e.full /\ Outcome(doc, e).k = "reject"
    /\ err /\ nd = doc
    /\ UNCHANGED doc

Lenient(e, err, nd) ==                                \* reject or apply, nothing else
    /\ ~e.full /\ Outcome(doc, e).k = "either"
    /\ \/ err /\ nd = doc
       \/ ~err /\ nd = Outcome(doc, e).doc
    /\ doc' = nd

Unspecified(e, err, nd) ==                            \* client-defined: any answer (but an answer)
    /\ ~e.full /\ Outcome(doc, e).k = "unspec"
    /\ doc' = nd

Batch(cs, err, nd) ==                                 \* several changes in one notification
    /\ Len(cs) >= 2
    /\ Allowed(doc, cs, err, nd)
    /\ doc' = nd

(***************************************************************************)
(* Exhaustive exploration: every edit of a parametrised family on every    *)
(* reachable document of at most MaxLen scalars.                           *)
(***************************************************************************)
CONSTANTS InitDocs,     \* set of initial documents
          Texts,        \* set of replacement texts
          MaxLen        \* documents longer than this are not extended further

\* positions tried on d: every line up to two beyond the last, every character up to two beyond the
\* line length (beyond the document: 0 and 1)
Positions(d) ==
    LET L == Lines(d)
    IN UNION { { <<n - 1, c>> : c \in 0..(LineUnits(d, L[n]) + 2) } : n \in 1..Len(L) }
       \cup { <<Len(L) + j, c>> : j \in 0..1, c \in 0..1 }

\* a thinner family: every character up to one beyond the line length, the two positions just beyond
\* the document
CorePositions(d) ==
    LET L == Lines(d)
    IN UNION { { <<n - 1, c>> : c \in 0..(LineUnits(d, L[n]) + 1) } : n \in 1..Len(L) }
       \cup { <<Len(L), 0>>, <<Len(L), 1>> }

AnyText == CHOOSE t \in Texts : TRUE

\* the text does not matter for a range whose start is after its end: one text is enough there
EditsOver(P, T) ==
    { RangeChange(<<pq[1][1], pq[1][2], pq[2][1], pq[2][2]>>, t) :
            pq \in { x \in P \X P : PosLE(x[1][1], x[1][2], x[2][1], x[2][2]) }, t \in T }
    \cup { RangeChange(<<pq[1][1], pq[1][2], pq[2][1], pq[2][2]>>, AnyText) :
            pq \in { x \in P \X P : ~PosLE(x[1][1], x[1][2], x[2][1], x[2][2]) } }

EditsOf(d) == EditsOver(Positions(d), Texts)

Fits(nd) == Len(nd) <= MaxLen

Init == doc \in InitDocs

NFull        == \E t \in Texts : Full(t, FALSE, t)
NIncremental == \E e \in EditsOf(doc) : Fits(Outcome(doc, e).doc) /\ Incremental(e, FALSE, Outcome(doc, e).doc)
NInvalid     == \E e \in EditsOf(doc) : Invalid(e, TRUE, doc)
NLenient     == \E e \in EditsOf(doc) : Fits(Outcome(doc, e).doc) /\
                    (Lenient(e, TRUE, doc) \/ Lenient(e, FALSE, Outcome(doc, e).doc))
\* representative successor of an unspecified change: the document is left as it is
NUnspecified == \E e \in EditsOf(doc) : Unspecified(e, FALSE, doc)

Next == NFull \/ NIncremental \/ NInvalid \/ NLenient \/ NUnspecified

Spec == Init /\ [][Next]_doc

(***************************************************************************)
(* Sanity of the definitions (checked by TLC on every reachable document). *)
(***************************************************************************)
\* resolving is monotone: a later position never resolves to an earlier offset
MonotoneResolve ==
    HasLoneCR(doc) \/
    \A p \in Positions(doc), q \in Positions(doc) :
        PosLE(p[1], p[2], q[1], q[2]) => Resolve(doc, p[1], p[2]).off <= Resolve(doc, q[1], q[2]).off

\* offsets stay inside the document and lines tile it
LinesTile ==
    LET L == Lines(doc)
    IN /\ L[1].s = 0
       /\ \A n \in 1..Len(L) : L[n].s <= L[n].v /\ L[n].v <= Len(doc)
       /\ \A n \in 1..(Len(L) - 1) : L[n + 1].s = L[n].v + (IF L[n].crlf THEN 2 ELSE 1) /\ doc[L[n + 1].s] = LF
       /\ L[Len(L)].v = Len(doc)
       /\ \A n \in 1..Len(L) : \A i \in (L[n].s + 1)..L[n].v : doc[i] # LF
=============================================================================
