---------------------------- MODULE MC_ForcTest ----------------------------
(***************************************************************************)
(* TLC-only additions to ForcTest (C29).                                   *)
(*  * MCSpec: every suite of the pool below (by package type), every name  *)
(*    filter, every interleaving of Start / Finish with up to Runners      *)
(*    tests in flight: the invariants of ForcTest hold when every test     *)
(*    gets its own copy of the deployment state (Shared = FALSE) and are   *)
(*    violated when the storage is shared (Shared = TRUE, MC_ForcTest_     *)
(*    shared.cfg: the anti-vacuity configuration, TLC must report          *)
(*    Isolation violated).                                                 *)
(*  * GenSpec: the suites as initial states only, printed as REPLAY        *)
(*    records for the conformance step.                                    *)
(* Pool of suites for package type PType:                                  *)
(*   singles : every behaviour variant x every expectation (the whole      *)
(*             truth table of Passed);                                     *)
(*   seqs    : every sequence of 2..MaxLen behaviour variants; the test at *)
(*             an odd position declares the expectation its behaviour      *)
(*             meets, the one at an even position the contrary one (so     *)
(*             suites mix passing and failing tests);                      *)
(*   core    : every sequence of CoreLen variants of the core behaviours.  *)
(***************************************************************************)
EXTENDS ForcTest, Json

CONSTANTS PType,        \* "script" | "library" | "contract"
          MaxLen,       \* longest sequence over all behaviour variants
          CoreLen       \* length of the sequences over the core variants (0 = none)

\* behaviour variants [beh, key, code]
V(b, k, c) == [beh |-> b, key |-> k, code |-> c]
PlainVariants == { V("ok", 0, "none"), V("revert", 0, "zero"), V("revert", 0, "c42"), V("revert", 0, "big"),
                   V("panic", 0, "none"), V("assert", 0, "none"), V("require", 0, "none"),
                   V("log", 0, "none"), V("log_revert", 0, "c42") }
StorageVariants == { V("write", 0, "none"), V("write_revert", 0, "c42"), V("read", 0, "none"), V("read", 1, "none"),
                     V("write", 1, "none") }
Variants == IF PType = "contract" THEN PlainVariants \cup StorageVariants ELSE PlainVariants
CoreVariants == IF PType = "contract"
                THEN { V("panic", 0, "none"), V("write", 0, "none"), V("read", 0, "none"),
                       V("log", 0, "none"), V("write_revert", 0, "c42") }
                ELSE { V("ok", 0, "none"), V("panic", 0, "none"), V("log", 0, "none"), V("revert", 0, "c42") }

\* expectation variants <<exp, expcode>>
ExpVariants == { <<"none", "none">>, <<"should_revert", "none">> }
               \cup { <<"should_revert_code", c>> : c \in Codes }

Digits == <<"0", "1", "2", "3", "4", "5", "6", "7", "8", "9">>
NameOf(pos) == "t" \o Digits[(pos \div 10) + 1] \o Digits[(pos % 10) + 1]

MkTest(v, e, pos) ==
    [name |-> NameOf(pos), beh |-> v.beh, key |-> v.key, val |-> 100 + pos, code |-> v.code,
     exp |-> e[1], expcode |-> e[2]]

Proto(v) == [name |-> "x", beh |-> v.beh, key |-> v.key, val |-> 0, code |-> v.code, exp |-> "none", expcode |-> "none"]
Meets(v) ==      \* the expectation the behaviour meets
    LET r == RunAlone(Proto(v)) IN
    IF r.out = "revert" THEN <<"should_revert_code", r.code>> ELSE <<"none", "none">>
Contrary(v) ==   \* an expectation the behaviour fails
    LET r == RunAlone(Proto(v)) IN
    IF r.out = "revert" THEN <<"none", "none">> ELSE <<"should_revert", "none">>

RECURSIVE SeqsOver(_, _)
SeqsOver(S, n) == IF n = 0 THEN {<<>>} ELSE { Append(s, x) : s \in SeqsOver(S, n - 1), x \in S }

Dress(vs) == [i \in DOMAIN vs |-> MkTest(vs[i], IF i % 2 = 1 THEN Meets(vs[i]) ELSE Contrary(vs[i]), i)]

Singles == { <<MkTest(v, e, 1)>> : v \in Variants, e \in ExpVariants }
SeqSuites == UNION { { Dress(vs) : vs \in SeqsOver(Variants, n) } : n \in 2..MaxLen }
CoreSuites == IF CoreLen = 0 THEN {} ELSE { Dress(vs) : vs \in SeqsOver(CoreVariants, CoreLen) }
Suites == Singles \cup SeqSuites \cup CoreSuites

Filters(s) == {""} \cup { s[i].name : i \in DOMAIN s } \cup {"t0"}      \* "t0" selects every test t0x; a full name selects one

MCInit == \E s \in Suites : \E f \in Filters(s) : Init0(s, f)
MCSpec == MCInit /\ [][Next]_vars

GenInit == \E s \in Suites : Init0(s, "")
NoNext == FALSE /\ UNCHANGED vars
GenSpec == GenInit /\ [][NoNext]_vars

PrintSuite == PrintT(<<"REPLAY", ToJson([ptype |-> PType, tests |-> suite])>>)

\* properties of the pool / of the definitions, checked on every enumerated suite
PoolInv ==
    /\ \A i \in DOMAIN suite : PassedMeaning(suite[i])
    /\ \A i \in DOMAIN suite : (suite[i].beh \in StorageBehaviours) => PType = "contract"

\* when every selected test is done, the results are exactly the tests run alone -- whatever the order was
OrderIndependent ==
    AllDone => /\ DOMAIN results = { i \in Idx : Selected(suite[i], filter) }
               /\ \A i \in DOMAIN results : results[i] = [res |-> RunAlone(suite[i]), passed |-> Passed(suite[i], RunAlone(suite[i]))]
=============================================================================
