---------------------------- MODULE MC_PassOrder ----------------------------
EXTENDS PassOrder, Json
\* one replay record per reachable pipeline variant
PrintReplay == PrintT(<<"REPLAY", ToJson([base |-> base, edits |-> edits, passes |-> Flat(pipe)])>>)
\* asm configurations, printed once
PrintAsm == (edits = <<>> /\ base = "debug") =>
              \A c \in AsmConfigs : PrintT(<<"ASMCFG", ToJson([on |-> c])>>)
=============================================================================
