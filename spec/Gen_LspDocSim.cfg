\* fixed-seed simulation pool: 4 documents of 21..40 scalars, histories of 30 changes
\* (run with -simulate num=N -depth 32 -seed S)
CONSTANTS
    InitDocs <- DocsLong
    Texts <- Texts9
    Texts2 <- Texts3
    MaxLen = 48
    Algo = "utf16walk"
    MaxEdits = 30
    SimPick = 3
SPECIFICATION SimSpec
INVARIANT PrintReplay
CHECK_DEADLOCK FALSE
