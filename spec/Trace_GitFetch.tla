--------------------------- MODULE Trace_GitFetch ---------------------------
(***************************************************************************)
(* Trace validation for C30.  The trace (vh-fetch run) is a sequence of    *)
(* scenarios; each is: Begin, then for every build process BuildStart, the *)
(* hook's fault points in order (Point), possibly Crash / IoFail, the      *)
(* agent's Planned / CompileBegin / Compiled, BuildEnd, and a Snapshot of  *)
(* the cache taken after the process has gone; End.                        *)
(*                                                                         *)
(* Every event must be a step of GitFetch (same actions, same protocol     *)
(* constant) whose visible effect equals what was observed:                *)
(*   Point p        a Step that arrives at the program point named p       *)
(*   Crash / IoFail the Crash / IoError action at that point               *)
(*   Planned ok     FindOk / FindErr (or the error of an injected IoError) *)
(*   CompileBegin   the files present in the checkout = the model's prefix *)
(*   Compiled ok    Compile, success iff the model says the needed files   *)
(*                  are there; the compiler read exactly Needed            *)
(*   BuildEnd o     the model's outcome                                    *)
(*   Snapshot       directory / files / index / stale clones / lock equal  *)
(*                  the model's file-system state                          *)
(* The arrival at "find" (leaving the locked block) has no event of its    *)
(* own and is a silent step.  The property invariants of GitFetch are      *)
(* checked on the replayed states (cfg), so a real build that compiles a   *)
(* partial checkout is reported even when it matches the model.            *)
(***************************************************************************)
EXTENDS GitFetch, Json, IOUtils

Rec == ndJsonDeserialize(IOEnv.TRACE)

VARIABLES l,       \* next event
          commit   \* the scenario's pinned commit

tvars == <<vars, l, commit>>

Range(s) == { s[i] : i \in DOMAIN s }
Ev == Rec[l]
Is(e) == l <= Len(Rec) /\ Rec[l].ev = e
Mark(n) == TLCSet(1, IF TLCGet(1) > n THEN TLCGet(1) ELSE n)
Consume == l' = l + 1 /\ Mark(l + 1) /\ UNCHANGED commit
Same == UNCHANGED vars

InitVars(lf) ==
    /\ localFirst' = lf
    /\ build' = 1 /\ pc' = "start"
    /\ tmp' = "absent" /\ litter' = {}
    /\ coDir' = FALSE /\ coFiles' = 0 /\ coIndex' = FALSE
    /\ lock' = "free" /\ faults' = 0 /\ faulted' = FALSE /\ refetched' = FALSE
    /\ outcome' = "none" /\ compiledWith' = NFiles + 1
    /\ prevCleanErr' = FALSE /\ cleanErrs' = 0

TraceInit ==
    /\ Init /\ localFirst = FALSE
    /\ l = 1 /\ commit = ""
    /\ TLCSet(1, 1)

\* a scenario starts from an empty cache; the constants of the cfg must be those of the real tree
TrBegin ==
    /\ Is("Begin")
    /\ (IF l = 1 THEN TRUE ELSE Rec[l-1].ev = "End")
    /\ Ev.n = NFiles /\ Ev.manifest = ManifestIdx
    /\ Range(Ev.needed) = Needed /\ Range(Ev.plan_needed) = PlanNeeded
    /\ Len(Ev.tree) = NFiles
    /\ InitVars(Ev.ref \in {"tag", "rev"})
    /\ l' = l + 1 /\ Mark(l + 1) /\ commit' = Ev.commit

TrEnd == Is("End") /\ pc = "ended" /\ Same /\ Consume

TrBuildStart ==
    /\ Is("BuildStart")
    /\ IF Ev.b = 1 THEN pc = "start" /\ build = 1 /\ Same
                   ELSE NextBuild /\ pc' = "start" /\ build' = Ev.b
    /\ Consume

TrPoint ==
    /\ Is("Point")
    /\ Step /\ pc' \in FaultPcs /\ PointName(pc') = Ev.point
    /\ Consume

\* leaving the write-locked block has no fault point of its own
TrSilent == (ExistsSkip \/ TmpDone) /\ UNCHANGED <<l, commit>>

TrCrash == Is("Crash") /\ PointName(pc) = Ev.point /\ Crash /\ Consume

TrIoFail ==
    /\ Is("IoFail") /\ PointName(pc) = Ev.point
    /\ IF pc = "fetch.checkout.file" THEN Same ELSE IoError     \* ignored inside the callback
    /\ Consume

TrPlanned ==
    /\ Is("Planned")
    /\ \/ Ev.ok /\ FindOk
       \/ ~Ev.ok /\ FindErr
       \/ ~Ev.ok /\ pc = "ended" /\ outcome = "error" /\ faulted /\ Same
    /\ Consume

TrCompileBegin ==
    /\ Is("CompileBegin") /\ pc = "compile"
    /\ Range(Ev.present) = Present /\ Ev.extra = <<>> /\ Ev.index = coIndex
    /\ Same /\ Consume

TrCompiled ==
    /\ Is("Compiled")
    /\ Ev.ok = CompileOk
    /\ Ev.ok => (Range(Ev.sources) \cup {ManifestIdx} = Needed /\ Ev.sources_extra = <<>>)
    /\ Range(Ev.present_after) = Present
    /\ Compile
    /\ Consume

TrBuildEnd == Is("BuildEnd") /\ pc = "ended" /\ Ev.outcome = outcome /\ Same /\ Consume

TrSnapshot ==
    /\ Is("Snapshot") /\ pc = "ended"
    /\ Ev.dir = coDir /\ Range(Ev.files) = Present /\ Ev.extra = <<>> /\ Ev.index = coIndex
    /\ Ev.ndirs = (IF coDir THEN 1 ELSE 0)
    /\ coDir => Ev.commit = commit
    /\ tmp = "absent" /\ Range(Ev.tmp) = litter
    /\ Ev.lockFree = (lock = "free")
    /\ Same /\ Consume

TraceNext ==
    \/ TrBegin \/ TrEnd \/ TrBuildStart \/ TrPoint \/ TrSilent \/ TrCrash \/ TrIoFail
    \/ TrPlanned \/ TrCompileBegin \/ TrCompiled \/ TrBuildEnd \/ TrSnapshot

TraceSpec == TraceInit /\ [][TraceNext]_tvars

Accepted ==
    IF TLCGet(1) = Len(Rec) + 1 THEN TRUE
    ELSE Print(<<"FIRST-UNMATCHED", TLCGet(1), ToJson(Rec[TLCGet(1)])>>, FALSE)
=============================================================================
