SPECIFICATION TraceSpec
INVARIANT FrameOK
POSTCONDITION Accepted
CHECK_DEADLOCK FALSE
