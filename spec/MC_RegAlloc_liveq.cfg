CONSTANTS
  MaxLen = 2
  NV = 3
  NP = 1
  Kinds = {"const", "mov", "inc", "add", "out", "jnz", "jmp"}
  Rule = "spec"
  Filter = FALSE
  RandLens = {3, 4, 5}
  RandKinds = {"const", "mov", "inc", "add", "out", "jnz", "jmp"}
  RandCount = 600
SPECIFICATION Spec
INVARIANT LivenessIsPathLiveness
CHECK_DEADLOCK FALSE
