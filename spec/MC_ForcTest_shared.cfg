\* anti-vacuity: the defective design (one storage shared by all tests). TLC must report Isolation violated.
CONSTANTS
  PType = "contract"
  MaxLen = 2
  CoreLen = 0
  Runners = 2
  Shared = TRUE
SPECIFICATION MCSpec
INVARIANT Isolation
CHECK_DEADLOCK FALSE
