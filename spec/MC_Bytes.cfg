INIT Init
NEXT Next
