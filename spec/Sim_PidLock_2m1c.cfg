\* simulation pool (fixed -seed): complete behaviours of 2m1c printed as REPLAY records
CONSTANTS
  Procs = {1, 2, 3}
  Prog <- Prog_2m1c
  AtomicPublish = TRUE
  InitFiles = {"absent", "empty", "garbage", "ghost"}
  MaxCrashes = 1
SPECIFICATION MCSpec
INVARIANT PrintReplay
CHECK_DEADLOCK FALSE
