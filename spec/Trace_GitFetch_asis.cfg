\* the real dependency tree of vh-fetch (7 files; Forc.toml is 2nd, lib.sw 4th); protocol AS FOUND (pre-fix evidence: the unrepaired code conforms to this model and violates NoPartialCompile)
CONSTANT NFiles = 7
CONSTANT ManifestIdx = 2
CONSTANT PlanNeeded = {2, 4}
CONSTANT Needed = {2, 4, 5, 6}
CONSTANT MaxBuilds = 3
CONSTANT MaxFaults = 1
CONSTANT Protocol = "inplace"
SPECIFICATION TraceSpec
INVARIANT TypeOK
INVARIANT NoPartialCompile
INVARIANT CompiledComplete
INVARIANT ErrorThenRefetch
INVARIANT NoFailForever
INVARIANT LockFreeBetweenBuilds
INVARIANT MarkerTruthful
POSTCONDITION Accepted
CHECK_DEADLOCK FALSE
