\* double mutations (used with -simulate, fixed seed)
CONSTANTS K = 0  Alphabet <- CoreAtoms  NSeeds <- NSeedsImpl  SeedTok <- SeedTokImpl  SeedDelims <- SeedDelimsImpl  MaxOps = 2  Q = 1
INIT MutInit
NEXT MutNext
INVARIANT PrintMut
CHECK_DEADLOCK FALSE
