\* double mutations: two insertions of state-changing atoms at the same / neighbouring position
CONSTANTS K = 0  Alphabet <- CoreAtoms  NSeeds <- NSeedsImpl  SeedTok <- SeedTokImpl  SeedDelims <- SeedDelimsImpl  MaxOps = 2  Q = 1
INIT MutInit
NEXT PairNext
INVARIANT PrintMut
CHECK_DEADLOCK FALSE
