\* fixed-seed pool of double mutations: run with -simulate num=N -depth 3 -seed S (one worker)
CONSTANT MaxDepth = 2
SPECIFICATION SimSpec
INVARIANT PrintReplay
INVARIANT KindsKnown
INVARIANT DepthBound
INVARIANT EditsResolve
CHECK_DEADLOCK FALSE
