\* the protocol as found (existence of the directory = "already fetched"): F11, safety half.
\* EXPECTED RESULT: NoPartialCompile is violated (crash mid-checkout, next build compiles the prefix)
CONSTANT NFiles = 3
CONSTANT ManifestIdx = 1
CONSTANT PlanNeeded = {1}
CONSTANT Needed = {1, 2}
CONSTANT MaxBuilds = 3
CONSTANT MaxFaults = 1
CONSTANT Protocol = "inplace"
SPECIFICATION Spec
INVARIANT TypeOK
INVARIANT LockFreeBetweenBuilds
INVARIANT LockDiscipline
INVARIANT MarkerTruthful
INVARIANT NoPartialCompile
CHECK_DEADLOCK FALSE
