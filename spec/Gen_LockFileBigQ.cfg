CONSTANTS Family = "big" NMax = 2 E2 = 1 E3 = 1 Wide = TRUE BigN = 8 BigReps = 20
CONSTANTS SStr <- MC_SStr PSrc <- MC_PSrc PDep <- MC_PDep SProv <- MC_SProv
INIT MCInit
NEXT NoNext
INVARIANT PrintReplay
CHECK_DEADLOCK FALSE
