----------------------------- MODULE PassOrder -----------------------------
(***************************************************************************)
(* The IR pass pipelines of sway-core's compile_ast_to_ir_to_asm and the   *)
(* space of pipeline variants explored for C03/C04/C05 (and, as a second   *)
(* axis, the asm-level sub-optimizations for C07).                         *)
(*                                                                         *)
(* A pipeline is a sequence of pass names.  It has three sections:         *)
(*   Lowering   <<lower-init-aggr>>                 mandatory, first       *)
(*   Opt        optimization passes                 free                   *)
(*   Fuel       the FuelVM lowering suffix          mandatory, in order    *)
(*   Tail       optimization passes after lowering  free (subset)          *)
(* The two pipelines the compiler itself assembles (Debug, Release) are    *)
(* bound to the code by Trace_PassOrder (recorded pass lists of default    *)
(* builds must equal them).  Variants are reached by edit actions:         *)
(* inserting a registered optimization pass at any position of the Opt or  *)
(* Tail section, or removing an optional one.                              *)
(***************************************************************************)
EXTENDS Naturals, Sequences, FiniteSets, TLC

CONSTANT MaxEdits

Lowering == <<"lower-init-aggr">>
O0 == <<"fn-dedup-debug", "inline", "globals-dce", "dce">>
O1 == <<"mem2reg", "fn-dedup-release", "inline", "arg_pointee_mutability_tagger", "simplify-cfg",
        "globals-dce", "dce", "inline", "arg_pointee_mutability_tagger", "ccp", "const-folding",
        "simplify-cfg", "cse", "const-folding", "simplify-cfg", "globals-dce", "dce", "fn-dedup-release">>
Fuel == <<"const-demotion", "arg-demotion", "ret-demotion", "misc-demotion",
          "arg_pointee_mutability_tagger", "memcpyopt", "dce", "simplify-cfg">>
TailO1 == <<"memcpyprop_reverse", "sroa", "mem2reg", "dce">>

Debug == [low |-> Lowering, opt |-> O0, fuel |-> Fuel, tail |-> <<>>]
Release == [low |-> Lowering, opt |-> O1, fuel |-> Fuel, tail |-> TailO1]

Flat(p) == p.low \o p.opt \o p.fuel \o p.tail

\* registered transformation passes that may appear in the Opt section
OptPasses == {"mem2reg", "fn-dedup-release", "fn-dedup-debug", "inline", "arg_pointee_mutability_tagger",
              "simplify-cfg", "globals-dce", "dce", "ccp", "const-folding", "cse", "sroa"}
\* ... and after the FuelVM lowering (values are demoted to memory there)
TailPasses == {"memcpyprop_reverse", "sroa", "mem2reg", "dce", "simplify-cfg", "cse", "const-folding", "ccp"}
\* passes of the O0 Opt section that must stay (inlining is required until sway#4899 is resolved)
Required == {"inline"}

VARIABLES base, pipe, edits

vars == <<base, pipe, edits>>

Init == /\ base \in {"debug", "release"}
        /\ pipe = (IF base = "debug" THEN Debug ELSE Release)
        /\ edits = <<>>

InsertAt(s, i, x) == SubSeq(s, 1, i) \o <<x>> \o SubSeq(s, i + 1, Len(s))     \* after position i (0 = front)
RemoveAt(s, i) == SubSeq(s, 1, i - 1) \o SubSeq(s, i + 1, Len(s))

InsertOpt(x, i) ==
    /\ Len(edits) < MaxEdits
    /\ x \in OptPasses /\ i \in 0..Len(pipe.opt)
    /\ pipe' = [pipe EXCEPT !.opt = InsertAt(@, i, x)]
    /\ edits' = Append(edits, <<"ins-opt", x, i>>)
    /\ UNCHANGED base

InsertTail(x, i) ==
    /\ Len(edits) < MaxEdits
    /\ x \in TailPasses /\ i \in 0..Len(pipe.tail)
    /\ pipe' = [pipe EXCEPT !.tail = InsertAt(@, i, x)]
    /\ edits' = Append(edits, <<"ins-tail", x, i>>)
    /\ UNCHANGED base

RemoveOpt(i) ==
    /\ Len(edits) < MaxEdits
    /\ i \in 1..Len(pipe.opt)
    \* the last remaining occurrence of a required pass stays
    /\ pipe.opt[i] \in Required => \E j \in 1..Len(pipe.opt) : j # i /\ pipe.opt[j] = pipe.opt[i]
    /\ pipe' = [pipe EXCEPT !.opt = RemoveAt(@, i)]
    /\ edits' = Append(edits, <<"rm-opt", pipe.opt[i], i>>)
    /\ UNCHANGED base

RemoveTail(i) ==
    /\ Len(edits) < MaxEdits
    /\ i \in 1..Len(pipe.tail)
    /\ pipe' = [pipe EXCEPT !.tail = RemoveAt(@, i)]
    /\ edits' = Append(edits, <<"rm-tail", pipe.tail[i], i>>)
    /\ UNCHANGED base

Next == \/ \E x \in OptPasses, i \in 0..Len(pipe.opt) : InsertOpt(x, i)
        \/ \E x \in TailPasses, i \in 0..Len(pipe.tail) : InsertTail(x, i)
        \/ \E i \in 1..Len(pipe.opt) : RemoveOpt(i)
        \/ \E i \in 1..Len(pipe.tail) : RemoveTail(i)

Spec == Init /\ [][Next]_vars

(***************************************************************************)
(* Legality: what every explored pipeline must satisfy (checked by TLC on  *)
(* every reachable variant, and by Trace_PassOrder on recorded pass lists).*)
(***************************************************************************)
Range(s) == { s[i] : i \in DOMAIN s }
Legal(p) ==
    /\ p.low = Lowering
    /\ p.fuel = Fuel
    /\ Range(p.opt) \subseteq OptPasses
    /\ Range(p.tail) \subseteq TailPasses
    /\ Required \subseteq Range(p.opt)
AlwaysLegal == Legal(pipe)
LoweringFirst == Flat(pipe)[1] = "lower-init-aggr"

(***************************************************************************)
(* Asm-level sub-optimizations (C07): a configuration is the set that is   *)
(* switched on; the compiler's own configuration is all of them.           *)
(***************************************************************************)
AsmOpts == {"const_indexing_aggregates", "constant_propagate", "dce", "simplify_cfg",
            "remove_sequential_jumps", "remove_redundant_moves", "remove_redundant_ops",
            "alloc_remove_redundant_sp_move", "alloc_remove_redundant_ops"}
AsmConfigs == {AsmOpts, {}} \cup { {x} : x \in AsmOpts } \cup { AsmOpts \ {x} : x \in AsmOpts }
=============================================================================
