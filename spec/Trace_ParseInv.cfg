CONSTANTS K = 0  Alphabet <- CoreAtoms  NSeeds = 0  SeedTok <- NoTok  SeedDelims <- NoDelims  MaxOps = 0  Q = 1
INIT TraceInit
NEXT TraceNext
POSTCONDITION Accepted
CHECK_DEADLOCK FALSE
