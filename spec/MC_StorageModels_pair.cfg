\* two vector fields at once (cross-talk between fields): vecA and vecB, lengths 0..2, one value
CONSTANT UnitWord = 0
CONSTANT Active = {"vecA", "vecB"}
CONSTANT Vals = {1}
CONSTANT Keys = {1, 2}
CONSTANT MaxLen = 2
CONSTANT SliceLens = {0, 1}
CONSTANT VecArgs = {0, 1}
SPECIFICATION Spec
INVARIANT Refines
INVARIANT RetAgree
PROPERTY FrameProp
CHECK_DEADLOCK FALSE
