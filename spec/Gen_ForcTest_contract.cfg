\* the suite pool of a contract package as REPLAY records (initial states only)
CONSTANTS
  PType = "contract"
  MaxLen = 2
  CoreLen = 4
  Runners = 1
  Shared = FALSE
SPECIFICATION GenSpec
INVARIANT PoolInv
INVARIANT PrintSuite
CHECK_DEADLOCK FALSE
