------------------------ MODULE Trace_CompileOutcome ------------------------
(***************************************************************************)
(* Trace validation for C17.  One record per compilation:                  *)
(*   [ev |-> "Compiled", pkg, profile, engine, outcome]                    *)
(* outcome is the mechanical projection of the engine's result: artifacts, *)
(* diagnostics, or the raw kind panic / ice / crash / timeout.  A record   *)
(* is consumed by Start(pkg) followed by Compiled(pkg, outcome); the       *)
(* latter is enabled only for the two outcomes of CompileOutcome.tla, so   *)
(* the trace is rejected exactly at the first compilation that crashed.    *)
(***************************************************************************)
EXTENDS CompileOutcome, Sequences, Json, IOUtils

Rec == ndJsonDeserialize(IOEnv.TRACE)
VARIABLE l

TraceInit == CInit /\ l = 1 /\ TLCSet(1, 1)

TrStart == /\ l <= Len(Rec) /\ Rec[l].ev = "Compiled"
           /\ Start(Rec[l].pkg)
           /\ UNCHANGED l

TrCompiled == /\ l <= Len(Rec) /\ Rec[l].ev = "Compiled"
              /\ Compiled(Rec[l].pkg, Rec[l].outcome)
              /\ l' = l + 1 /\ TLCSet(1, l + 1)

TraceNext == TrStart \/ TrCompiled
TraceSpec == TraceInit /\ [][TraceNext]_<<cvars, l>>

\* every consumed record finished with one of the two outcomes
Consumed == finished["artifacts"] + finished["diagnostics"] = l - 1

\* The records no Compiled step can consume.  Acceptance of a record does not depend on the records before it
\* (every compilation starts from "idle"), so after a rejection the driver reads this set to report ALL the
\* offending records of the shard at once, removes them, and validates the rest again.
Unconsumable == { i \in 1..Len(Rec) : Rec[i].outcome \notin Outcomes }
ASSUME PrintT(<<"UNCONSUMABLE", ToJson(Unconsumable)>>)

Accepted ==
    IF TLCGet(1) = Len(Rec) + 1 THEN TRUE
    ELSE Print(<<"FIRST-UNMATCHED", TLCGet(1), ToJson(Rec[TLCGet(1)])>>, FALSE)
=============================================================================
