\* 3 markers
CONSTANTS
  Procs = {1, 2, 3}
  Prog <- Prog_3m
  AtomicPublish = TRUE
  InitFiles = {"absent", "ghost"}
  MaxCrashes = 1
SPECIFICATION MCSpec
INVARIANT TypeOK
INVARIANT CulpritRecorded
INVARIANT LossReport
INVARIANT UnseenReport
INVARIANT StaleWitness
CHECK_DEADLOCK FALSE
