--------------------------- MODULE Trace_PidLock ---------------------------
(***************************************************************************)
(* Trace validation for C25.  The trace (ndjson, written by vh-pidlock run)*)
(* is a concatenation of replayed schedules.  Each schedule starts with a  *)
(* "reset" record (programs, initial file) and continues with one record   *)
(* per granted step of a REAL agent process:                               *)
(*   {"ev":"step","p":k,"pt":<step point the agent was stopped at>,        *)
(*    "next":<step point it reached next> | "done", "res":<result>,        *)
(*    "file":"flag"|"tmp", "fs":{"flag":c,"tmp":[c,c,c],"other":n}}        *)
(*   {"ev":"crash","p":k,"fs":...}      the agent was SIGKILLed and reaped *)
(* A record is accepted iff PidLock's action for that step point is        *)
(* enabled for that process, the process then stands where the model says  *)
(* (same next step point / same operation result) and the real directory   *)
(* shows exactly the model's FsView.  Anything else ("diverged", a wrong   *)
(* content, an unexpected file) is unmatched: POSTCONDITION Accepted fails *)
(* and names the record.                                                   *)
(***************************************************************************)
EXTENDS PidLock, Json, IOUtils

Rec == ndJsonDeserialize(IOEnv.TRACE)

VARIABLE l

NoProg(p) == <<>>

TraceInit ==
    /\ l = 1
    /\ StateIs(Initial([p \in Procs |-> <<>>], "absent"))
    /\ TLCSet(1, 1)

Becomes(s) ==
    /\ prog' = s.prog /\ flag' = s.flag /\ tmp' = s.tmp /\ content' = s.content /\ alive' = s.alive
    /\ loc' = s.loc /\ holds' = s.holds /\ mine' = s.mine /\ culprit' = s.culprit /\ wit' = s.wit
    /\ eng' = s.eng /\ visBad' = s.visBad /\ staleBad' = s.staleBad

Advance == l' = l + 1 /\ TLCSet(1, l + 1)

\* which file the real step point must name
FileOf(pt) == IF AtomicPublish /\ pt \in {"lock.create", "lock.write"} THEN "tmp" ELSE "flag"

TrReset ==
    /\ l <= Len(Rec) /\ Rec[l].ev = "reset"
    /\ LET e == Rec[l] IN
       /\ Len(e.progs) = Cardinality(Procs)
       /\ Becomes(Initial([p \in Procs |-> e.progs[p]], e.init))
       /\ FsView' = e.fs
    /\ Advance

TrStep ==
    /\ l <= Len(Rec) /\ Rec[l].ev = "step"
    /\ LET e == Rec[l] IN
       /\ e.p \in Procs /\ At(e.p, e.pt)
       /\ Step(e.p)
       /\ IF e.next = "done"
          THEN loc'[e.p].opi = loc[e.p].opi + 1 /\ loc'[e.p].res = e.res
          ELSE loc'[e.p].opi = loc[e.p].opi /\ loc'[e.p].pc = e.next /\ e.file = FileOf(e.next)
       /\ FsView' = e.fs
    /\ Advance

TrCrash ==
    /\ l <= Len(Rec) /\ Rec[l].ev = "crash"
    /\ LET e == Rec[l] IN
       /\ e.p \in Procs /\ Crash(e.p)
       /\ FsView' = e.fs
    /\ Advance

TraceNext == TrReset \/ TrStep \/ TrCrash
TraceSpec == TraceInit /\ [][TraceNext]_<<vars, l>>

Accepted ==
    IF TLCGet(1) = Len(Rec) + 1 THEN TRUE
    ELSE Print(<<"FIRST-UNMATCHED", TLCGet(1), ToJson(Rec[TLCGet(1)])>>, FALSE)
=============================================================================
