\* trace validation against the repaired protocol (the tree as it is now)
CONSTANTS
  Procs = {1, 2, 3}
  Prog <- NoProg
  AtomicPublish = TRUE
  InitFiles = {"absent"}
  MaxCrashes = 3
SPECIFICATION TraceSpec
INVARIANT TypeOK
POSTCONDITION Accepted
CHECK_DEADLOCK FALSE
