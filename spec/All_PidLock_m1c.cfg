\* ALL behaviours (every interleaving) of the smallest configuration: 1 marker (mark only) + 1 checker,
\* no initial file, no crash.  hist makes each path a state; PrintReplay prints each complete path.
CONSTANTS
  Procs = {1, 2}
  Prog <- Prog_m1c
  AtomicPublish = TRUE
  InitFiles = {"absent"}
  MaxCrashes = 0
SPECIFICATION HSpec
INVARIANT PrintReplay
CHECK_DEADLOCK FALSE
