CONSTANT CheckRT = FALSE
SPECIFICATION TraceSpec
POSTCONDITION Accepted
CHECK_DEADLOCK FALSE
