CONSTANT BSel = {1, 2, 3, 4, 5, 6, 7, 8, 9, 10}
CONSTANT ChainSel = {"add-sub", "sub-add", "mul-div", "div-mul"}
CONSTANT F12Fixed = TRUE
CONSTANT B256CmpFixed = TRUE
CONSTANT ClsSel = {}
CONSTANT TySel = {}
CONSTANT Mode = "build"
SPECIFICATION TraceSpec
POSTCONDITION Accepted
CHECK_DEADLOCK FALSE
