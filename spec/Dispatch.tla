------------------------------ MODULE Dispatch ------------------------------
(***************************************************************************)
(* C11: a contract call that names a method executes exactly that method   *)
(* with the decoded arguments and returns its encoded result; a call that  *)
(* names no method runs the fallback if one is declared, else reverts.     *)
(*                                                                         *)
(* A contract is [methods |-> << [name, sig] >>, fallback |-> BOOLEAN].    *)
(* Every generated method i increments its own counter in the callee's     *)
(* storage, logs a snapshot of all counters and returns (100 + i, args..); *)
(* the fallback has its own counter and returns 4095.                      *)
(*                                                                         *)
(* Two readings of "which method does a selector name":                    *)
(*   SpecTarget   the property: the method whose name equals the selector; *)
(*   ImplTarget   sway-core .. auto_impl/abi_encoding.rs                   *)
(*                generate_contract_entry, transcribed: the names are      *)
(*                packed into one string `_method_names` (a name that      *)
(*                already occurs as a substring is not appended again, its *)
(*                offset is that of the first occurrence), the arms are    *)
(*                grouped by name length, ascending, declaration order     *)
(*                inside a group; an arm matches when the selector's       *)
(*                length equals the arm's length and `meq` finds the       *)
(*                selector's bytes at the arm's offset.                    *)
(* The state machine runs on ImplTarget; the invariants state the property *)
(* with SpecTarget.  The caller side (sway-core .. method_application.rs   *)
(* method_name_literal, std::codec::contract_call) passes the selector as  *)
(* the 8 big-endian bytes of its length followed by its bytes, and the     *)
(* arguments as the canonical encoding of their tuple.                     *)
(***************************************************************************)
EXTENDS SwaySem, FiniteSets

(***************************************************************************)
(* Argument values: SwaySem's plus vectors and string slices.              *)
(***************************************************************************)
VecV(es) == [k |-> "vec", es |-> es]
SliceV(b) == [k |-> "ss", b |-> b]
BE8(n) == ToBE(FromNat(n, 8))

RECURSIVE EncA(_), EncASeq(_, _)
EncA(v) ==
    CASE v.k = "vec" -> BE8(Len(v.es)) \o EncASeq(v.es, 1)
      [] v.k = "ss" -> BE8(Len(v.b)) \o v.b
      [] v.k = "i" -> ToBE(v.b)
      [] v.k = "b" -> IF v.v THEN <<1>> ELSE <<0>>
      [] v.k = "u" -> <<>>
      [] v.k = "a" -> EncASeq(v.es, 1)
      [] v.k = "e" -> BE8(v.tag) \o EncA(v.v)
EncASeq(es, i) == IF i > Len(es) THEN <<>> ELSE EncA(es[i]) \o EncASeq(es, i + 1)

\* signatures: the parameter list of a method, by name
Sigs == <<"unit", "u64", "u8bool", "struct", "vec", "str">>
NParams(sig) == CASE sig = "unit" -> 0 [] sig = "u8bool" -> 2 [] OTHER -> 1

(***************************************************************************)
(* The selector as passed in the first call parameter.                     *)
(***************************************************************************)
RECURSIVE StrBytes(_, _)
Ord(c) == CASE c = "a" -> 97 [] c = "b" -> 98 [] c = "c" -> 99 [] c = "d" -> 100 [] c = "e" -> 101
            [] c = "f" -> 102 [] c = "g" -> 103 [] c = "m" -> 109 [] c = "n" -> 110 [] c = "o" -> 111
            [] c = "r" -> 114 [] c = "s" -> 115 [] c = "t" -> 116 [] c = "x" -> 120 [] c = "_" -> 95
            [] c = "2" -> 50 [] c = "z" -> 122
StrBytes(s, i) == IF i > Len(s) THEN <<>> ELSE <<Ord(SubSeq(s, i, i))>> \o StrBytes(s, i + 1)
SelectorBlob(sel) == BE8(Len(sel)) \o StrBytes(sel, 1)

(***************************************************************************)
(* generate_contract_entry                                                 *)
(***************************************************************************)
\* str::find: 0-based offset of the first occurrence, -1 if none
RECURSIVE FindFrom(_, _, _)
FindFrom(hay, needle, i) ==
    IF i + Len(needle) > Len(hay) THEN 0 - 1
    ELSE IF SubSeq(hay, i + 1, i + Len(needle)) = needle THEN i
    ELSE FindFrom(hay, needle, i + 1)
Find(hay, needle) == FindFrom(hay, needle, 0)

\* [names |-> the packed string, offs |-> offset of every method]
RECURSIVE Pack(_, _, _, _)
Pack(ms, i, names, offs) ==
    IF i > Len(ms) THEN [names |-> names, offs |-> offs]
    ELSE LET at == Find(names, ms[i].name) IN
         IF at >= 0 THEN Pack(ms, i + 1, names, Append(offs, at))
         ELSE Pack(ms, i + 1, names \o ms[i].name, Append(offs, Len(names)))
Packed(c) == Pack(c.methods, 1, "", <<>>)

\* the arms whose length equals the selector's, in declaration order; the first one whose bytes compare equal
ImplTarget(c, sel) ==
    LET p == Packed(c)
        hits == { i \in DOMAIN c.methods :
                    /\ Len(c.methods[i].name) = Len(sel)
                    /\ SubSeq(p.names, p.offs[i] + 1, p.offs[i] + Len(sel)) = sel }
    IN IF hits = {} THEN 0 ELSE CHOOSE i \in hits : \A j \in hits : i <= j

SpecTarget(c, sel) ==
    LET hits == { i \in DOMAIN c.methods : c.methods[i].name = sel }
    IN IF hits = {} THEN 0 ELSE CHOOSE i \in hits : TRUE

UniqueNames(c) == \A i, j \in DOMAIN c.methods : i # j => c.methods[i].name # c.methods[j].name

(***************************************************************************)
(* Observable results.                                                     *)
(***************************************************************************)
MethodTag(i) == 100 + i
FallbackTag == 4095
RetBytes(i, args) == BE8(MethodTag(i)) \o EncASeq(args, 1)
FallbackRet == BE8(FallbackTag)
\* the snapshot a method logs: all method counters, then the fallback's counter
RECURSIVE SnapFrom(_, _)
SnapFrom(cnt, i) == IF i > Len(cnt) THEN <<>> ELSE BE8(cnt[i]) \o SnapFrom(cnt, i + 1)
Snapshot(cnt) == SnapFrom(cnt, 1)

(***************************************************************************)
(* The state machine: one contract, a sequence of calls.                   *)
(*   cnt: counters, cnt[n + 1] is the fallback's; aborted: the transaction *)
(*   reverted (terminal); last: what the last call showed.                 *)
(***************************************************************************)
VARIABLES c, cnt, aborted, steps, last
vars == <<c, cnt, aborted, steps, last>>

NoCall == [sel |-> "", args |-> <<>>, target |-> 0 - 1, ret |-> <<>>, snap |-> <<>>, reverted |-> FALSE, before |-> <<>>]

InitWith(contract) ==
    /\ c = contract
    /\ cnt = [i \in 1..(Len(contract.methods) + 1) |-> 0]
    /\ aborted = FALSE /\ steps = 0 /\ last = NoCall

\* the same as an action: a fresh deployment of `contract` (every test starts from the deployment state)
Deploy(contract) ==
    /\ c' = contract
    /\ cnt' = [i \in 1..(Len(contract.methods) + 1) |-> 0]
    /\ aborted' = FALSE /\ steps' = 0 /\ last' = NoCall

\* what a call does, given the method the dispatcher selects (0 = none)
Outcome(contract, counters, sel, args, target) ==
    LET n == Len(contract.methods) IN
    IF target > 0 THEN
        LET cn == [counters EXCEPT ![target] = @ + 1] IN
        [cnt |-> cn, reverted |-> FALSE, ret |-> RetBytes(target, args), snap |-> Snapshot(cn)]
    ELSE IF contract.fallback THEN
        LET cn == [counters EXCEPT ![n + 1] = @ + 1] IN
        [cnt |-> cn, reverted |-> FALSE, ret |-> FallbackRet, snap |-> Snapshot(cn)]
    ELSE [cnt |-> counters, reverted |-> TRUE, ret |-> <<>>, snap |-> <<>>]

Call(sel, args) ==
    /\ ~aborted
    /\ LET t == ImplTarget(c, sel)
           o == Outcome(c, cnt, sel, args, t)
       IN /\ cnt' = o.cnt
          /\ aborted' = o.reverted
          /\ last' = [sel |-> sel, args |-> args, target |-> t, ret |-> o.ret, snap |-> o.snap, reverted |-> o.reverted, before |-> cnt]
    /\ steps' = steps + 1
    /\ UNCHANGED c

(***************************************************************************)
(* The property.                                                           *)
(***************************************************************************)
\* the dispatcher selects the named method, or nothing when no method has that name
DispatchExact(sels) == \A s \in sels : ImplTarget(c, s) = SpecTarget(c, s)

\* after a call: exactly the named method's counter moved (the fallback's when none is named and a fallback
\* is declared; nothing, and the transaction is reverted, when none is named and there is no fallback)
FrameOK ==
    last.target >= 0 =>
        LET n == Len(c.methods)
            named == SpecTarget(c, last.sel)
            moved == IF named > 0 THEN named ELSE IF c.fallback THEN n + 1 ELSE 0
        IN /\ \A j \in DOMAIN cnt : cnt[j] = last.before[j] + (IF j = moved THEN 1 ELSE 0)
           /\ last.reverted = (moved = 0)
           /\ last.ret = (IF named > 0 THEN RetBytes(named, last.args) ELSE IF c.fallback THEN FallbackRet ELSE <<>>)
           /\ last.snap = (IF moved = 0 THEN <<>> ELSE Snapshot(cnt))
           /\ aborted = last.reverted
RECURSIVE SumTo(_, _)
SumTo(f, i) == IF i = 0 THEN 0 ELSE f[i] + SumTo(f, i - 1)
CountersSum == SumTo(cnt, Len(cnt)) = steps - (IF aborted THEN 1 ELSE 0)
=============================================================================
