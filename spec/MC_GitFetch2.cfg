\* repaired protocol, two faults (crash and/or I/O error in any combination), 4 builds, 4 files
CONSTANT NFiles = 4
CONSTANT ManifestIdx = 2
CONSTANT PlanNeeded = {2, 3}
CONSTANT Needed = {2, 3}
CONSTANT MaxBuilds = 4
CONSTANT MaxFaults = 2
CONSTANT Protocol = "marker"
SPECIFICATION Spec
INVARIANT TypeOK
INVARIANT NoPartialCompile
INVARIANT CompiledComplete
INVARIANT ErrorThenRefetch
INVARIANT NoFailForever
INVARIANT CleanBuildCompiles
INVARIANT LockFreeBetweenBuilds
INVARIANT LockDiscipline
INVARIANT MarkerTruthful
CHECK_DEADLOCK FALSE
