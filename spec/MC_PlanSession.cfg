\* exhaustive: 3 packages, 3 base manifests, every session with <= 3 environment actions
\* (manifest edits, lock deletion, lock corruption) interleaved with any number of planning steps
CONSTANTS N = 3  MaxEnv = 3
SPECIFICATION Spec
INVARIANT TypeOK
INVARIANT PlannedGraphIsReachableClosure
INVARIANT PlannedEdgesAreManifestEntries
INVARIANT StaleLockNeverLeaks
INVARIANT LockInSync
INVARIANT OrderRespectsDeps
INVARIANT NoLockEdgeSurvives
INVARIANT MapNeverFails
PROPERTY LockFixpoint
PROPERTY LockedFailsIffChanged
PROPERTY LockedNeverWrites
PROPERTY CycleFailsAndKeepsLock
PROPERTY SummaryAgrees
CHECK_DEADLOCK FALSE
