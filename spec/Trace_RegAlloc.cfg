CONSTANTS
  NPool = 37
  MoveExempt = TRUE
SPECIFICATION TraceSpec
POSTCONDITION Accepted
CHECK_DEADLOCK FALSE
