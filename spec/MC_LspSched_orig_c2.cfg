\* protocol as originally written: 1 didOpen + 2 didChange + 1 waiting request
CONSTANTS NChange = 2  NSave = 0  NWait = 1  ChecksFull = 2  ChecksCached = 1
          FixNotify = FALSE  FixOpen = FALSE  FixClear = FALSE
SPECIFICATION Spec
INVARIANT TypeOK TokenOK SendNeverBlocks CheckReadsAtomic NoHang NoLostEdit ClassificationSound
CHECK_DEADLOCK FALSE
