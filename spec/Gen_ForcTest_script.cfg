\* the suite pool of a script package as REPLAY records (initial states only)
CONSTANTS
  PType = "script"
  MaxLen = 2
  CoreLen = 4
  Runners = 1
  Shared = FALSE
SPECIFICATION GenSpec
INVARIANT PoolInv
INVARIANT PrintSuite
CHECK_DEADLOCK FALSE
