CONSTANT MaxEdits = 1
SPECIFICATION Spec
INVARIANT AlwaysLegal
INVARIANT LoweringFirst
INVARIANT PrintReplay
INVARIANT PrintAsm
CHECK_DEADLOCK FALSE
