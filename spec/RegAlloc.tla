------------------------------ MODULE RegAlloc ------------------------------
(***************************************************************************)
(* Register allocation never clobbers a live value (C08).                  *)
(*                                                                         *)
(* A function body is a sequence `ops` of abstract instructions            *)
(*     [d |-> set of virtual registers the instruction defines,            *)
(*      u |-> set of virtual registers it uses,                            *)
(*      s |-> set of successor positions (1-based indices into ops),       *)
(*      mv |-> the source register if the instruction is a register MOVE,  *)
(*             NoReg otherwise]                                            *)
(* and an allocation is a function `asg` from virtual registers to         *)
(* physical registers (or NoPhys = not assigned).                          *)
(*                                                                         *)
(* This module defines, with no reference to how the compiler computes     *)
(* them:                                                                   *)
(*   - liveness as the least fixpoint of the dataflow equations            *)
(*         out[i] = UNION { in[s] : s \in succ(i) }                        *)
(*         in[i]  = use[i] \cup (out[i] \ def[i])                          *)
(*   - the interference relation: a register written at i conflicts with   *)
(*     every other register live after i, except that the destination of   *)
(*     a MOVE does not conflict with the MOVE's source (both hold the      *)
(*     same value there);                                                  *)
(*   - NoClobber / Total / InPool for an allocation, SpillDisjoint for the *)
(*     stack slots handed out by the spiller.                              *)
(* MC_RegAlloc shows on a small register machine that NoClobber is the     *)
(* right invariant (it implies that the allocated program runs like the    *)
(* virtual-register program); Trace_RegAlloc evaluates the invariants on   *)
(* what the real allocator produced.                                       *)
(***************************************************************************)
EXTENDS Naturals, Integers, Sequences, FiniteSets

NoReg  == 0        \* "no MOVE source"; virtual registers are numbered from 1
NoPhys == -1       \* "no physical register assigned"

(***************************************************************************)
(* Liveness.  `in` is a function 1..Len(ops) -> sets of registers.         *)
(***************************************************************************)
OutOf(ops, in, i) == UNION { in[s] : s \in ops[i].s }

InOf(ops, in, i)  ==
    LET o == ops[i]
    IN  o.u \cup (UNION { in[s] : s \in o.s } \ o.d)

\* One backward Gauss-Seidel sweep i = Len(ops), ..., 1: position i sees the values already
\* recomputed for the positions after it.
RECURSIVE Sweep(_, _, _)
Sweep(ops, in, i) ==
    IF i = 0 THEN in
    ELSE LET ni == InOf(ops, in, i)
         IN  Sweep(ops, IF ni = in[i] THEN in ELSE [in EXCEPT ![i] = ni], i - 1)

\* Iterate sweeps from the bottom element (all sets empty) until nothing changes.  Every sweep is
\* monotone and inflationary from bottom, so the limit is the least fixpoint of the equations.
RECURSIVE FixFrom(_, _)
FixFrom(ops, in) ==
    LET nx == Sweep(ops, in, Len(ops))
    IN  IF nx = in THEN in ELSE FixFrom(ops, nx)

\* the bottom element [i \in 1..n |-> {}], written as an explicit sequence (built by doubling) so
\* that TLC holds it as an array: EXCEPT on a function *expression* is kept as a list of overrides
\* that every later application scans
RECURSIVE Bottom(_)
Bottom(n) ==
    IF n = 0 THEN <<>>
    ELSE LET h == Bottom(n \div 2)
         IN  IF n % 2 = 0 THEN h \o h ELSE Append(h \o h, {})

LiveIn(ops)  == FixFrom(ops, Bottom(Len(ops)))

LiveOutFrom(ops, in) == [i \in 1..Len(ops) |-> OutOf(ops, in, i)]

LiveOut(ops) == LiveOutFrom(ops, LiveIn(ops))

\* `in` solves the equations
IsFixpoint(ops, in) == \A i \in 1..Len(ops) : in[i] = InOf(ops, in, i)

(***************************************************************************)
(* Interference, relative to a live-out table `out`.                       *)
(***************************************************************************)
\* an instruction o with live-out set lo that writes a destroys b
ClobbersOp(o, lo, a, b) ==
    /\ a \in o.d
    /\ b \in lo
    /\ a # b
    /\ ~(o.mv # NoReg /\ o.mv = b)

\* writing a at position i destroys b
ClobbersAt(ops, out, i, a, b) == ClobbersOp(ops[i], out[i], a, b)

InterfereIn(ops, out, a, b) == \E i \in 1..Len(ops) : ClobbersAt(ops, out, i, a, b)

Interfere(ops, a, b) == InterfereIn(ops, LiveOut(ops), a, b)

\* all registers mentioned by the function
RegsOf(ops) == UNION { ops[i].d \cup ops[i].u : i \in 1..Len(ops) }

(***************************************************************************)
(* The properties of an allocation `asg` (a function whose domain contains *)
(* RegsOf(ops)).                                                           *)
(***************************************************************************)
\* positions/register pairs where the allocation destroys a live value
Clobbers(ops, out, asg) ==
    { <<i, a, b>> \in UNION { {i} \X ops[i].d \X out[i] : i \in 1..Len(ops) } :
         ClobbersAt(ops, out, i, a, b) /\ asg[a] = asg[b] }

NoClobberIn(ops, out, asg) ==
    \A i \in 1..Len(ops) :
        LET o == ops[i]
            lo == out[i]
        IN  \A a \in o.d : \A b \in lo : ClobbersOp(o, lo, a, b) => asg[a] # asg[b]

NoClobber(ops, asg) == NoClobberIn(ops, LiveOut(ops), asg)

Total(ops, asg) == \A v \in RegsOf(ops) : v \in DOMAIN asg /\ asg[v] # NoPhys

\* only registers of the allocatable pool 0 .. npool-1 are handed out
InPool(ops, asg, npool) == \A v \in RegsOf(ops) : asg[v] = NoPhys \/ asg[v] \in 0..(npool - 1)

(***************************************************************************)
(* Spill slots: `slots` is a set of <<key, byte offset>> pairs, one per    *)
(* spilled register (key identifies round and register), `locals` the size *)
(* of the frame's locals area the slots must stay clear of.                *)
(***************************************************************************)
SlotBytes == 8

SpillDisjoint(locals, slots) ==
    /\ \A x \in slots : x[2] >= locals /\ x[2] % SlotBytes = 0
    /\ \A x, y \in slots : x[1] # y[1] => (x[2] + SlotBytes <= y[2] \/ y[2] + SlotBytes <= x[2])
=============================================================================
