\* call sequences: contracts over the first 7 names, 1..3 methods, both orders, fallback yes/no, two signature patterns
CONSTANT MaxCalls = 3
CONSTANT MaxSize = 3
CONSTANT PoolN = 7
CONSTANT GenStride = 1
SPECIFICATION Spec
INVARIANT InvFrame
INVARIANT InvSum
INVARIANT InvUnique
CHECK_DEADLOCK FALSE
