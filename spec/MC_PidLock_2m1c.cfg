\* 2 markers + 1 checker
CONSTANTS
  Procs = {1, 2, 3}
  Prog <- Prog_2m1c
  AtomicPublish = TRUE
  InitFiles = {"absent", "empty", "garbage", "ghost"}
  MaxCrashes = 1
SPECIFICATION MCSpec
INVARIANT TypeOK
INVARIANT CulpritRecorded
INVARIANT LossReport
INVARIANT UnseenReport
INVARIANT StaleWitness
CHECK_DEADLOCK FALSE
