\* LspSched.tla, repaired protocol (= the tree), 1 didOpen + 3 didChange + 0 didSave + 1 waiting request(s), abstract check points
CONSTANTS NChange = 3  NSave = 0  NWait = 1
          NChecksFull = 3  TailFullCode = 110  NChecksCached = 2  TailCachedCode = 10
          FixNotify = TRUE  FixOpen = TRUE  FixClear = TRUE  FixSave = TRUE
          KnownMechs = {}
SPECIFICATION Spec
INVARIANT TypeOK
INVARIANT TokenOK
INVARIANT SendNeverBlocks
INVARIANT CheckReadsAtomic
INVARIANT ClassificationSound
INVARIANT NoHangButKnown
INVARIANT NoLostEditButKnown
INVARIANT NoDefectEvent
CHECK_DEADLOCK FALSE
