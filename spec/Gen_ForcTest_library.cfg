\* the suite pool of a library package as REPLAY records (initial states only)
CONSTANTS
  PType = "library"
  MaxLen = 2
  CoreLen = 4
  Runners = 1
  Shared = FALSE
SPECIFICATION GenSpec
INVARIANT PoolInv
INVARIANT PrintSuite
CHECK_DEADLOCK FALSE
