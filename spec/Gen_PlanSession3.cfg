CONSTANTS N = 3  MaxEnv = 3
SPECIFICATION GenSpec
VIEW GenViewCoarse
INVARIANT PrintHist
CHECK_DEADLOCK FALSE
