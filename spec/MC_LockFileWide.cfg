\* 2 names x 14 well-formed sources; <= 2 nodes with <= 2 edges, 3 nodes with <= 1 edge (model only)
CONSTANTS Family = "core" NMax = 3 E2 = 2 E3 = 1 Wide = TRUE BigN = 4 BigReps = 1
CONSTANTS SStr <- MC_SStr PSrc <- MC_PSrc PDep <- MC_PDep SProv <- MC_SProv
INIT MCInit
NEXT Next
INVARIANT RoundTripTheorem
INVARIANT LockFaithful
INVARIANT PrintWitness
CHECK_DEADLOCK FALSE
