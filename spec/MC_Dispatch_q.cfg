\* quick tier: contracts over the first 5 names
CONSTANT MaxCalls = 2
CONSTANT MaxSize = 3
CONSTANT PoolN = 5
CONSTANT GenStride = 1
SPECIFICATION Spec
INVARIANT InvFrame
INVARIANT InvSum
INVARIANT InvUnique
CHECK_DEADLOCK FALSE
