\* C09/C10 design-level model check over the universe "d2" of type trees (see MC_AbiCodec.tla)
CONSTANTS Universe = "d2" SampleD2 = 0 SampleD3 = 0
SPECIFICATION Spec
INVARIANT Inv
CHECK_DEADLOCK FALSE
