\* shortest history exhibiting the mechanism $MECH (run with -workers 1; violated iff the mechanism is reachable)
CONSTANTS
  Mods = {"main", "a", "b", "c"}
  NNames = 2
  MaxItems = 3
  MaxHist = 5
  Kinds = {"add", "delete", "rename", "sig", "arg", "ws"}
  CancelAt = {1, 4}
  Inits = {"base"}
  KeepHist = TRUE
SPECIFICATION Spec
INVARIANT TargetUnreachable
CHECK_DEADLOCK FALSE
