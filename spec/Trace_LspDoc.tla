---------------------------- MODULE Trace_LspDoc ----------------------------
(***************************************************************************)
(* Trace validation for C23.  Every record is one notification that        *)
(* vh-lspdoc sent to the real sway-lsp document store:                     *)
(*   [h, i        history id, index of the notification in the history     *)
(*    k           "open" (TextDocument::build_from_path + store_document)  *)
(*                | "change" (update_text_document / write_changes_to_file *)
(*                / handle_did_change_text_document)                       *)
(*    changes     <<[full, r, t]>>  (k = "open": one full change)          *)
(*    before      get_text() before the call (code points)                 *)
(*    after       get_text() after the call                                *)
(*    err, panic  the call returned Err / panicked                         *)
(*    hasfile, file  text left on disk by write_changes_to_file]           *)
(* A record is accepted iff it is a step of LspDoc's state machine from    *)
(* the current document: Open / Full / Incremental / Invalid / Lenient /   *)
(* Unspecified / Batch with the server's answer (err, after) as the        *)
(* action's parameters.  A panic is never a step.  Within a history the    *)
(* `before` text must be the document the previous step left.              *)
(***************************************************************************)
EXTENDS LspDoc, Json, IOUtils

Rec == ndJsonDeserialize(IOEnv.TRACE)

VARIABLE l            \* index of the next record

AsChange(c) == [full |-> c.full, r |-> c.r, t |-> c.t]
Changes(r) == [j \in 1..Len(r.changes) |-> AsChange(r.changes[j])]

\* the record continues the history of the previous one
Continues(n) == n > 1 /\ Rec[n - 1].h = Rec[n].h /\ Rec[n].i = Rec[n - 1].i + 1 /\ ~Rec[n - 1].panic

\* text left on disk: whenever the call succeeded the file must hold the document
FileOK(r) == (r.hasfile /\ ~r.err) => r.file = r.after

TraceInit ==
    /\ l = 1
    /\ doc = (IF Len(Rec) = 0 THEN <<>> ELSE Rec[1].before)
    /\ TLCSet(1, 1)

\* common to every accepted record: no panic, the file (if written) holds the document, and the
\* call started from the document the specification is in
Consume(r) ==
    /\ ~r.panic
    /\ FileOK(r)
    /\ l' = l + 1
    /\ TLCSet(1, l + 1)

\* the first record of a shard, the first record of a history, or the record after a panic: the
\* specification is re-based on the text the server reports it holds.  Inside a history there is no
\* re-basing (`before` must be the document the previous step left) and no gap in the numbering.
\* (IF, not \/ : inside an action TLC explores every disjunct, Rec[0] does not exist)
MayRebase(n) == IF n = 1 THEN TRUE ELSE (Rec[n].i = 0 \/ Rec[n - 1].h # Rec[n].h \/ Rec[n - 1].panic)

\* records of one history are numbered consecutively
Numbered(n) == IF MayRebase(n) THEN TRUE ELSE Rec[n].i = Rec[n - 1].i + 1

IsChange(n)  == n <= Len(Rec) /\ Rec[n].k = "change" /\ Rec[n].before = doc /\ Numbered(n)
IsSingle(n)  == IsChange(n) /\ Len(Rec[n].changes) = 1 /\ ~Rec[n].changes[1].full

TrOpen ==
    /\ l <= Len(Rec) /\ Rec[l].k = "open"
    /\ LET r == Rec[l] IN
        /\ ~r.err /\ r.after = r.changes[1].t
        /\ Open(r.after)
        /\ Consume(r)

TrFull ==
    /\ IsChange(l) /\ Len(Rec[l].changes) = 1 /\ Rec[l].changes[1].full
    /\ LET r == Rec[l] IN Full(r.changes[1].t, r.err, r.after) /\ Consume(r)

TrIncremental ==
    /\ IsSingle(l)
    /\ LET r == Rec[l] IN Incremental(AsChange(r.changes[1]), r.err, r.after) /\ Consume(r)

TrInvalid ==
    /\ IsSingle(l)
    /\ LET r == Rec[l] IN Invalid(AsChange(r.changes[1]), r.err, r.after) /\ Consume(r)

TrLenient ==
    /\ IsSingle(l)
    /\ LET r == Rec[l] IN Lenient(AsChange(r.changes[1]), r.err, r.after) /\ Consume(r)

TrUnspecified ==
    /\ IsSingle(l)
    /\ LET r == Rec[l] IN Unspecified(AsChange(r.changes[1]), r.err, r.after) /\ Consume(r)

TrBatch ==
    /\ IsChange(l) /\ Len(Rec[l].changes) >= 2
    /\ LET r == Rec[l] IN Batch(Changes(r), r.err, r.after) /\ Consume(r)

TrRebase ==
    /\ l <= Len(Rec) /\ Rec[l].k = "change" /\ MayRebase(l) /\ doc # Rec[l].before
    /\ doc' = Rec[l].before
    /\ UNCHANGED l

TraceNext == TrOpen \/ TrFull \/ TrIncremental \/ TrInvalid \/ TrLenient \/ TrUnspecified \/ TrBatch \/ TrRebase

TraceSpec == TraceInit /\ [][TraceNext]_<<doc, l>>

\* what the specification allows for the first unmatched record (for the violation report)
Expect(n) ==
    LET r == Rec[n]
    IN IF r.k = "open" THEN [k |-> "open", doc |-> r.changes[1].t]
       ELSE IF Len(r.changes) = 1 THEN Outcome(r.before, AsChange(r.changes[1]))
       ELSE [k |-> "batch", first |-> Outcome(r.before, AsChange(r.changes[1]))]

Accepted ==
    IF TLCGet(1) = Len(Rec) + 1 THEN TRUE
    ELSE Print(<<"FIRST-UNMATCHED", TLCGet(1), ToJson([rec |-> Rec[TLCGet(1)], spec |-> Expect(TLCGet(1)),
                                                        continues |-> Continues(TLCGet(1))])>>, FALSE)
=============================================================================
