\* MaxEnv is irrelevant for traces (TrStart resets the counter); N bounds the package ids
CONSTANTS N = 4  MaxEnv = 1000
SPECIFICATION TraceSpec
INVARIANT TypeOK
INVARIANT PlannedGraphIsReachableClosure
INVARIANT PlannedEdgesAreManifestEntries
INVARIANT StaleLockNeverLeaks
INVARIANT LockInSync
INVARIANT OrderRespectsDeps
INVARIANT PlanningTerminates
PROPERTY LockFixpoint
PROPERTY LockedFailsIffChanged
PROPERTY LockedNeverWrites
PROPERTY CycleFailsAndKeepsLock
POSTCONDITION Accepted
CHECK_DEADLOCK FALSE
