CONSTANTS
  MaxLen = 3
  NV = 3
  NP = 2
  Kinds = {"const", "mov", "out"}
  Rule = "moveall"
  Filter = TRUE
  RandLens = {}
  RandKinds = {}
  RandCount = 0
SPECIFICATION Spec
INVARIANT AllocatedRunAgrees
CHECK_DEADLOCK FALSE
