CONSTANTS
  MaxLen = 3
  NV = 3
  NP = 2
  Kinds = {"const", "mov", "out"}
  Rule = "moveall"
  Filter = TRUE
  RandLen = 0
  RandCount = 0
SPECIFICATION Spec
INVARIANT AllocatedRunAgrees
CHECK_DEADLOCK FALSE
