\* self-test only: without the MOVE exemption real allocations must be rejected
CONSTANTS
  NPool = 37
  MoveExempt = FALSE
SPECIFICATION TraceSpec
POSTCONDITION Accepted
CHECK_DEADLOCK FALSE
