--------------------------- MODULE Trace_ParseInv ---------------------------
(***************************************************************************)
(* Trace validation for C16.  IOEnv.TRACE: ndjson parse events written by  *)
(* vh-parse (identical events are merged by the driver, which is purely    *)
(* mechanical: exact equality of all fields the spec reads).               *)
(* Every event is validated on its own (one initial state per event): it   *)
(* is ACCEPTED iff ParseInv!Parse(event) is enabled -- i.e. lex,           *)
(* lex_commented and parse_file each ended with a result or diagnostics -- *)
(* and SpanInvariant holds in the resulting state.  Accepted events are    *)
(* collected in TLC register 1 (single worker); the POSTCONDITION demands  *)
(* all of them and prints the rejected ones.                               *)
(***************************************************************************)
EXTENDS ParseInv, Json, IOUtils

Rec == ndJsonDeserialize(IOEnv.TRACE)
NoTok(n) == 0
NoDelims(n) == {}
VARIABLE l
tvars == <<allvars, l>>

TraceInit == l \in 1..Len(Rec) /\ ParseInit /\ TLCSet(1, {})

TrParse == seen = 0 /\ Parse(Rec[l]) /\ UNCHANGED l

TrAccept ==
    /\ seen = 1 /\ SpanInvariant
    /\ TLCSet(1, TLCGet(1) \cup {l})
    /\ seen' = 2 /\ UNCHANGED <<s, mvars, desc, last, l>>

TraceNext == TrParse \/ TrAccept

Accepted ==
    IF TLCGet(1) = 1..Len(Rec) THEN TRUE
    ELSE /\ \A x \in (1..Len(Rec)) \ TLCGet(1) : PrintT(<<"REJECTED", x>>)
         /\ FALSE
=============================================================================
