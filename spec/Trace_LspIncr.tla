-------------------------- MODULE Trace_LspIncr --------------------------
(***************************************************************************)
(* Trace validation for C26.  Every record is one step of a history that   *)
(* vh-lspincr replayed into a long-lived real language server (field incr) *)
(* and, on the same text, into a fresh real server (field fresh):          *)
(*   [id, k, act, m, at, text, cancelled, incr |-> OBS, fresh |-> OBS]     *)
(*   OBS = [status, failed, diags, syms, refs]                             *)
(* The record's client action is replayed with the actions of LspIncr; the *)
(* worker's outcome (committed / cancelled / failed / crashed) is read off *)
(* the record and must be one that LspIncr enables.  A record is accepted  *)
(* iff                                                                     *)
(*   real incremental observation = ImplObs   (binds the model to the code *)
(*                                              even where Agree fails)    *)
(*   real fresh observation       = SpecObs(text).                         *)
(* Whenever the two real observations differ, the mechanisms LspIncr names *)
(* for the state are printed (MECH ...): the driver reports each of them.  *)
(* With Explain = TRUE nothing is required and the model's expectations    *)
(* are printed instead (used to display a rejected record).                *)
(***************************************************************************)
EXTENDS LspIncr, Json, IOUtils

CONSTANT Explain

Rec == ndJsonDeserialize(IOEnv.TRACE)

VARIABLES l,      \* index of the record being processed
          sub     \* 0: between records; 1: the record's edit has been applied, its compilation is pending

tvars == <<vars, l, sub>>

\* ---- observations as model values
SetOf(seq) == {seq[i] : i \in DOMAIN seq}
ObsOf(o) == [diag |-> {[m |-> d.m, line |-> d.line, k |-> d.k] : d \in SetOf(o.diags)},
             syms |-> [x \in Mods |-> SetOf(o.syms[x])],
             refs |-> [x \in Mods |-> SetOf(o.refs[x])]]
Usable(o) == o.status = "ok"

\* both bindings, evaluated in the successor state (text', ImplObs')
Bound(r) ==
    LET io == ObsOf(r.incr)
        fo == ObsOf(r.fresh)
        \* reference tokens of a module whose typed form holds garbage-collected declaration ids resolve through
        \* re-used slots: not modelled, not compared
        implOk == /\ io.diag = ImplObs'.diag
                  /\ io.syms = ImplObs'.syms
                  /\ \A x \in Mods \ taint' : io.refs[x] = ImplObs'.refs[x]
        specOk == fo = SpecObs(text')
    IN /\ IF io # fo THEN PrintT(<<"MECH", r.id, r.k, ToJson(mech')>>) ELSE TRUE
       /\ IF Explain
          THEN PrintT(<<"EXPLAIN", r.id, r.k, implOk, specOk, ToJson([impl |-> ImplObs', spec |-> SpecObs(text')])>>)
          ELSE implOk /\ specOk

Advance == l' = l + 1 /\ sub' = 0 /\ TLCSet(1, l + 1)

\* ---- first record of a history: the client opens main on the record's text
TrStart ==
    /\ l <= Len(Rec) /\ sub = 0
    /\ Rec[l].k = 1 /\ Rec[l].act = "Open" /\ Rec[l].m = "main"
    /\ Usable(Rec[l].incr) /\ Usable(Rec[l].fresh) /\ ~Rec[l].incr.failed
    /\ text' = Rec[l].text
    /\ ver' = [x \in Mods |-> 1]
    /\ opened' = {"main"}
    /\ phase' = "idle" /\ pend' = "none"
    /\ cache' = FreshCache(text')
    /\ sess' = FreshSess(text')
    /\ taint' = {} /\ unc' = [x \in Mods |-> "ok"] /\ mech' = {} /\ steps' = 1 /\ hist' = <<>>
    /\ Bound(Rec[l])
    /\ Advance

TrReopen ==
    /\ l <= Len(Rec) /\ sub = 0
    /\ Rec[l].k > 1 /\ Rec[l].act = "Open"
    /\ Usable(Rec[l].incr) /\ Usable(Rec[l].fresh) /\ ~Rec[l].incr.failed
    /\ Rec[l].text = text
    /\ Reopen(Rec[l].m)
    /\ Bound(Rec[l])
    /\ Advance

\* the record's edit: a legal edit of LspIncr leading to the record's text
TrEdit ==
    /\ l <= Len(Rec) /\ sub = 0
    /\ Rec[l].k > 1 /\ Rec[l].act \in {"Edit", "EditCancelled"}
    /\ \E kind \in Kinds : Edit(Rec[l].m, kind) /\ text' = Rec[l].text
    /\ l' = l /\ sub' = 1

\* ... was compiled and committed
TrCompileOk ==
    /\ sub = 1
    /\ Rec[l].cancelled # TRUE
    /\ Usable(Rec[l].incr) /\ Usable(Rec[l].fresh) /\ ~Rec[l].incr.failed
    /\ CompileOk
    /\ Bound(Rec[l])
    /\ Advance

\* ... was aborted by the next edit (no observation point)
TrCompileCancelled ==
    /\ sub = 1
    /\ Rec[l].cancelled = TRUE
    /\ CompileCancelled(Rec[l].at)
    /\ Advance

\* ... did not produce a typed program: the server logged an error and kept its state
TrCompileFailed ==
    /\ sub = 1
    /\ Rec[l].cancelled # TRUE
    /\ Usable(Rec[l].incr) /\ Usable(Rec[l].fresh) /\ Rec[l].incr.failed
    /\ CompileFailed
    /\ Bound(Rec[l])
    /\ Advance

\* ... killed the compilation thread
TrCrash ==
    /\ sub = 1
    /\ Rec[l].cancelled # TRUE
    /\ Rec[l].incr.status \in {"panic", "hang"}
    /\ Crash
    /\ PrintT(<<"MECH", Rec[l].id, Rec[l].k, ToJson(mech')>>)
    /\ Advance

TrRestart ==
    /\ l <= Len(Rec) /\ sub = 0
    /\ Rec[l].act = "Restart"
    /\ Usable(Rec[l].incr) /\ Usable(Rec[l].fresh)
    /\ Rec[l].text = text
    /\ Restart
    /\ Bound(Rec[l])
    /\ Advance

TraceInit ==
    /\ l = 1 /\ sub = 0
    /\ text = [x \in Mods |-> [items |-> <<>>, pad |-> 0]]
    /\ ver = [x \in Mods |-> 1] /\ opened = {} /\ phase = "idle" /\ pend = "none"
    /\ cache = FreshCache(text) /\ sess = FreshSess(text)
    /\ taint = {} /\ unc = [x \in Mods |-> "ok"] /\ mech = {} /\ steps = 1 /\ hist = <<>>
    /\ TLCSet(1, 1)

TraceNext == TrStart \/ TrReopen \/ TrEdit \/ TrCompileOk \/ TrCompileCancelled \/ TrCompileFailed
             \/ TrCrash \/ TrRestart

TraceSpec == TraceInit /\ [][TraceNext]_tvars

Accepted ==
    IF TLCGet(1) = Len(Rec) + 1 THEN TRUE
    ELSE Print(<<"FIRST-UNMATCHED", TLCGet(1), Rec[TLCGet(1)].id, Rec[TLCGet(1)].k>>, FALSE)
=============================================================================
