\* C19: every recorded (input, output) pair must be in the transducer's relation
CONSTANT PairOf <- TracePairOf
INIT Init19
NEXT Next19
POSTCONDITION Accepted
CHECK_DEADLOCK FALSE
