--------------------------- MODULE MC_PidLockAll ---------------------------
(* All behaviours of a small configuration: a history variable makes every  *)
(* path a distinct state, so breadth-first search visits every behaviour    *)
(* and PrintReplay prints each complete one exactly once.                   *)
EXTENDS MC_PidLock
VARIABLE hist
HInit == Init /\ hist = <<>>
HNext == Next /\ hist' = Append(hist, CHOOSE p \in Procs : loc'[p] # loc[p] \/ alive'[p] # alive[p])
HSpec == HInit /\ [][HNext]_<<vars, hist>>
=============================================================================
