---------------------------- MODULE BuildOrder ----------------------------
(***************************************************************************)
(* Package dependency graphs and compilation order (C22).                  *)
(*                                                                         *)
(* A graph is [nodes |-> set, edges |-> set of <<a, b>>] where <<a, b>>    *)
(* means "a depends on b" (the direction of forc-pkg's pkg::Graph).        *)
(* The specification is a nondeterministic Kahn-style planner: at each     *)
(* step any package all of whose dependencies are already emitted may be   *)
(* emitted.  Its behaviours are exactly the valid compilation orders, so   *)
(* an implementation order is correct iff it is a behaviour (checked by    *)
(* Trace_BuildOrder).  TLC checks on all graphs of <= N nodes that the     *)
(* planner gets stuck before emitting everything iff the graph is cyclic.  *)
(***************************************************************************)
EXTENDS Naturals, Sequences, FiniteSets, TLC

CONSTANT N            \* maximal number of packages

Nodes(n) == 1..n

Range(s) == { s[i] : i \in DOMAIN s }

\* dependencies of a (self-loops included)
Deps(g, a) == { e[2] : e \in { x \in g.edges : x[1] = a } }

\* transitive closure by iteration (nodes are few)
RECURSIVE ReachFrom(_, _, _)
ReachFrom(g, frontier, seen) ==
    LET next == UNION { Deps(g, a) : a \in frontier } \ seen
    IN IF next = {} THEN seen ELSE ReachFrom(g, next, seen \cup next)

\* nodes reachable from a in >= 1 step
ReachPlus(g, a) == ReachFrom(g, Deps(g, a), Deps(g, a))

Cyclic(g) == \E a \in g.nodes : a \in ReachPlus(g, a)

Pos(o, x) == CHOOSE i \in DOMAIN o : o[i] = x

IsPermutation(o, S) == Len(o) = Cardinality(S) /\ Range(o) = S

\* o lists every package once and every dependency before its dependents
IsOrder(g, o) ==
    /\ IsPermutation(o, g.nodes)
    /\ \A e \in g.edges : e[1] # e[2] => Pos(o, e[2]) < Pos(o, e[1])

(***************************************************************************)
(* The planner as a state machine.                                         *)
(***************************************************************************)
VARIABLES g, emitted

vars == <<g, emitted>>

AllGraphs ==
    UNION { [nodes : {Nodes(n)}, edges : SUBSET (Nodes(n) \X Nodes(n))] : n \in 1..N }

Init == g \in AllGraphs /\ emitted = <<>>

Ready(a) == a \notin Range(emitted) /\ Deps(g, a) \subseteq Range(emitted)

Emit(a) == Ready(a) /\ emitted' = Append(emitted, a) /\ UNCHANGED g

Next == \E a \in g.nodes : Emit(a)

Spec == Init /\ [][Next]_vars

Done == Range(emitted) = g.nodes
Stuck == ~Done /\ \A a \in g.nodes : ~Ready(a)

\* --- properties of the design, checked by TLC on every graph with <= N nodes
PrefixRespectsDeps ==
    \A i \in DOMAIN emitted : Deps(g, emitted[i]) \subseteq { emitted[j] : j \in 1..(i-1) }
DoneIsOrder == Done => IsOrder(g, emitted)
StuckIffCyclic == (Stuck => Cyclic(g)) /\ (Done => ~Cyclic(g))
\* an acyclic graph can never get stuck, a cyclic one can never finish
AcyclicProgress == (~Cyclic(g)) => ~Stuck
=============================================================================
