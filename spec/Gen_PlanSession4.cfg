CONSTANTS N = 4  MaxEnv = 2
SPECIFICATION GenSpec
VIEW GenView
INVARIANT PrintHist
CHECK_DEADLOCK FALSE
