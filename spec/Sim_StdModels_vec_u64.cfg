\* generated once by the C27 builder; see MC_StdModels.tla
CONSTANTS
  MKind = "vec"
  MEty = "u64"
  Prefixes <- PrefNew
  OpNames = {"push", "pop", "clear", "clone", "insert", "remove", "set", "swap", "resize", "get", "iter"}
  MaxOps = 40
  NumSel <- NumSel_none
SPECIFICATION SimSpec
INVARIANT PrintLeaf
CHECK_DEADLOCK FALSE
