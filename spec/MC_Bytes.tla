------------------------------ MODULE MC_Bytes ------------------------------
(* Self-check of Bytes.tla against TLC's native integers on widths 2 and 3. *)
EXTENDS Bytes, TLC

B2 == {0, 1, 2, 3, 5, 7, 15, 16, 17, 100, 127, 128, 129, 255, 256, 257, 511, 1000, 4095, 4096,
       32767, 32768, 32769, 65279, 65280, 65534, 65535}
B3 == B2 \cup {65536, 65537, 131071, 8388607, 8388608, 16777214, 16777215}
M(w) == IF w = 2 THEN 65536 ELSE 16777216
N(a) == ToNatFrom(a, 1)
F(n, w) == FromNat(n, w)

CheckW(S, w) ==
    \A a \in S, b \in S :
        /\ N(F(a, w)) = a
        /\ N(Add(F(a, w), F(b, w)).v) = (a + b) % M(w)
        /\ Add(F(a, w), F(b, w)).ovf = (a + b >= M(w))
        /\ N(Sub(F(a, w), F(b, w)).v) = (a - b + M(w)) % M(w)
        /\ Sub(F(a, w), F(b, w)).ovf = (a < b)
        /\ Lt(F(a, w), F(b, w)) = (a < b)
        /\ Le(F(a, w), F(b, w)) = (a <= b)
        /\ (a < 46000 /\ b < 46000) =>
             /\ N(Mul(F(a, w), F(b, w)).v) = (a * b) % M(w)
             /\ Mul(F(a, w), F(b, w)).ovf = (a * b >= M(w))
        /\ b # 0 =>
             /\ N(DivMod(F(a, w), F(b, w)).q) = a \div b
             /\ N(DivMod(F(a, w), F(b, w)).r) = a % b
        /\ N(BAnd(F(a, w), F(b, w))) = (a & b)
        /\ N(BOr(F(a, w), F(b, w))) = (a | b)
        /\ N(BXor(F(a, w), F(b, w))) = (a ^^ b)
        /\ N(BNot(F(a, w))) = M(w) - 1 - a
        /\ ToBE(F(a, w)) = Rev(F(a, w)) /\ FromBE(ToBE(F(a, w))) = F(a, w)

RECURSIVE P2(_)
P2(k) == IF k = 0 THEN 1 ELSE 2 * P2(k - 1)
CheckShift(S, w) ==
    \A a \in S, n \in 0..(8 * w + 2) :
        /\ N(Shl(F(a, w), n)) = (IF n >= 8 * w THEN 0 ELSE (a % P2(8 * w - n)) * P2(n))
        /\ N(Shr(F(a, w), n)) = (IF n >= 8 * w THEN 0 ELSE a \div P2(n))

ASSUME PrintT(<<"bytes-selfcheck", CheckW(B2, 2), CheckW(B3, 3), CheckShift(B2, 2), CheckShift(B3, 3)>>)
ASSUME CheckW(B2, 2) /\ CheckW(B3, 3) /\ CheckShift(B2, 2) /\ CheckShift(B3, 3)
\* wide spot checks: (2^64 - 1)^2 and division at 8 and 32 bytes
Max(w) == [i \in 1..w |-> 255]
ASSUME /\ Mul(Max(8), Max(8)).ovf
       /\ DivMod(Max(8), FromNat(255, 8)).r = Zero(8)
       /\ Mul(DivMod(Max(32), FromNat(65535, 32)).q, FromNat(65535, 32)).v = Max(32)
       /\ Add(Max(32), FromNat(1, 32)) = [v |-> Zero(32), ovf |-> TRUE]
       /\ Shl(FromNat(3, 32), 255) = [i \in 1..32 |-> IF i = 32 THEN 128 ELSE 0]
       /\ Shr(Max(8), 63) = FromNat(1, 8)
VARIABLE x
Init == x = 0
Next == UNCHANGED x
=============================================================================
