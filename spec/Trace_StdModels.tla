-------------------------- MODULE Trace_StdModels --------------------------
(***************************************************************************)
(* Trace validation for C27.  Every record is what one generated `#[test]` *)
(* did on the FuelVM (forc-test):                                          *)
(*   collections: [rt |-> "coll", id, kind, ety, ops, logs, out]           *)
(*      ops  : the operation history (as printed by MC_StdModels)          *)
(*      logs : the data of every LogData receipt, in order                 *)
(*      out  : "return" | "revert"                                         *)
(*   The history is replayed one operation at a time through the model's   *)
(*   own action StdModels!Apply; before each step the logged observation   *)
(*   of that operation (returned value, then len / capacity / is_empty /   *)
(*   last / get(i) for every i / whole-collection encoding ...) must be    *)
(*   the model's (Expect); an operation the model reverts must be the last *)
(*   one, the test must have reverted and logged nothing more; a history   *)
(*   the model completes must have returned with no log left over.         *)
(*   A record that is not a behaviour of the model is printed (REJECTED,   *)
(*   with the model's expectation at the first disagreement) and skipped:  *)
(*   one TLC run decides every record; POSTCONDITION Accepted holds iff the *)
(*   whole trace was consumed and nothing was rejected.                    *)
(*   numerics: [rt |-> "num", id, ty, op, mode, a, b, n, t2, logs, out]    *)
(*   -- one step: NumExpect decides outcome and every logged value         *)
(*   (exactly, or through the defining relation for sqrt / log).           *)
(***************************************************************************)
EXTENDS StdModels, Json, IOUtils

Rec == ndJsonDeserialize(IOEnv.TRACE)

VARIABLES l, k, p         \* record, next operation of the record, next log of the record
tvars == <<kind, ety, st, alive, l, k, p>>

IsColl(r) == r.rt = "coll"

Matches(items, logs, p0) ==
    \A x \in 1..Len(items) : p0 + x - 1 <= Len(logs) /\ ItemMatches(ety, items[x], logs[p0 + x - 1])

KindOf(i) == IF i <= Len(Rec) /\ IsColl(Rec[i]) THEN Rec[i].kind ELSE "vec"
EtyOf(i)  == IF i <= Len(Rec) /\ IsColl(Rec[i]) THEN Rec[i].ety ELSE "u64"

TraceInit ==
    /\ l = 1 /\ k = 1 /\ p = 1
    /\ kind = KindOf(1) /\ ety = EtyOf(1) /\ st = EmptyColl /\ alive = TRUE
    /\ TLCSet(1, 1) /\ TLCSet(3, 0)

NextRecord ==
    /\ l' = l + 1 /\ k' = 1 /\ p' = 1
    /\ kind' = KindOf(l + 1) /\ ety' = EtyOf(l + 1) /\ st' = EmptyColl /\ alive' = TRUE
    /\ TLCSet(1, l + 1)

\* the recorded observation of operation k agrees with the model: the logged items when it succeeds; when the
\* model reverts it, it is the last operation, the test reverted, and nothing more was logged
OpAgrees(r, x) ==
    IF x.ok THEN Matches(x.items, r.logs, p)
            ELSE k = Len(r.ops) /\ r.out = "revert" /\ p = Len(r.logs) + 1

\* the history is over: a completed one returned and left no log unexplained
EndAgrees(r) == alive => (r.out = "return" /\ p = Len(r.logs) + 1)

NumAccepted(r) ==
    \E x \in {NumExpect(r)} :
        /\ r.out = x.out
        /\ Len(r.logs) = Len(x.items)
        /\ \A i \in 1..Len(x.items) : NumItemMatches(x.items[i], r.logs[i])

\* what the model expected where the trace stopped matching (for the report)
RECURSIVE StAfter(_, _, _)
StAfter(kd, ops, j) == IF j = 0 THEN EmptyColl ELSE CollStep(kd, StAfter(kd, ops, j - 1), ops[j]).st
RECURSIVE LogsBefore(_, _, _)
LogsBefore(kd, ops, j) ==          \* number of logs the model expects from operations 1..j
    IF j = 0 THEN 0 ELSE LogsBefore(kd, ops, j - 1) + Len(Expect(kd, StAfter(kd, ops, j - 1), ops[j]).items)

Expected(i, j) ==
    LET r == Rec[i] IN
    IF ~IsColl(r) THEN ToJson(NumExpect(r))
    ELSE IF j > Len(r.ops) THEN ToJson([at |-> "end", out |-> "return", logs |-> LogsBefore(r.kind, r.ops, Len(r.ops))])
    ELSE LET s0 == StAfter(r.kind, r.ops, j - 1)
             x == Expect(r.kind, s0, r.ops[j])
         IN ToJson([at |-> j, op |-> r.ops[j], before |-> s0, ok |-> x.ok, after |-> x.st,
                    firstlog |-> LogsBefore(r.kind, r.ops, j - 1) + 1,
                    logs |-> [y \in DOMAIN x.items |-> EncItem(r.ety, x.items[y])]])

\* A record that is not a behaviour of the model is reported (REJECTED: record, operation, id, what the model
\* expected there) and skipped, so that one TLC run decides every record of the trace.
Reject(i, j) ==
    /\ PrintT(<<"REJECTED", i, j, Rec[i].id, Expected(i, j)>>)
    /\ TLCSet(3, TLCGet(3) + 1)

\* one operation of a collection history, through the model's own action
TrOp ==
    /\ l <= Len(Rec) /\ IsColl(Rec[l]) /\ k <= Len(Rec[l].ops)
    /\ LET r == Rec[l] o == r.ops[k] IN
       \E x \in {Expect(kind, st, o)} :
          IF OpAgrees(r, x)
          THEN /\ p' = p + Len(x.items)
               /\ Apply(o)
               /\ k' = k + 1 /\ l' = l
          ELSE Reject(l, k) /\ NextRecord

TrEndColl ==
    /\ l <= Len(Rec) /\ IsColl(Rec[l]) /\ k > Len(Rec[l].ops)
    /\ IF EndAgrees(Rec[l]) THEN TRUE ELSE Reject(l, k)
    /\ NextRecord

TrNum ==
    /\ l <= Len(Rec) /\ ~IsColl(Rec[l])
    /\ \E ok \in {NumAccepted(Rec[l])} : IF ok THEN TRUE ELSE Reject(l, 1)
    /\ NextRecord

TraceNext == TrOp \/ TrEndColl \/ TrNum
TraceSpec == TraceInit /\ [][TraceNext]_tvars

\* the whole trace was consumed and no record was rejected
Accepted ==
    IF TLCGet(1) = Len(Rec) + 1 /\ TLCGet(3) = 0 THEN TRUE
    ELSE Print(<<"NOT-ACCEPTED", "consumed", TLCGet(1) - 1, "of", Len(Rec), "rejected", TLCGet(3)>>, FALSE)
=============================================================================
