\* quick: every document of <= 3 scalars over {a, é, €, 𝄞, \n, \r} (all of them initial states;
\* every change of EditsOf with a text of <= 1 scalar
CONSTANTS
    InitDocs <- AllDocs
    Texts <- Texts01
    MaxLen = 3
    Algo = "utf16walk"
SPECIFICATION Spec
INVARIANT LinesTile
INVARIANT MonotoneResolve
INVARIANT ClientAgrees
INVARIANT ServerConforms
CHECK_DEADLOCK FALSE
