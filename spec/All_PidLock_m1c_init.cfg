\* ALL behaviours of 1 marker (mark only) + 1 checker over every initial file (absent, legacy-empty,
\* garbage, stale pid of a dead process), no crash.
CONSTANTS
  Procs = {1, 2}
  Prog <- Prog_m1c
  AtomicPublish = TRUE
  InitFiles = {"absent", "empty", "garbage", "ghost"}
  MaxCrashes = 0
SPECIFICATION HSpec
INVARIANT PrintReplay
CHECK_DEADLOCK FALSE
