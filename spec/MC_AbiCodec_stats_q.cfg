\* anti-vacuity statistics of the universe "q": how many type trees make each antecedent true
CONSTANTS Universe = "q" SampleD2 = 0 SampleD3 = 0 Part = 0 NParts = 1 WithNamed = TRUE
SPECIFICATION StatsSpec
CHECK_DEADLOCK FALSE
