\* replay records for the hand-picked nestings
CONSTANTS Universe = "named" SampleD2 = 0 SampleD3 = 0
SPECIFICATION Spec
INVARIANT PrintReplay
CHECK_DEADLOCK FALSE
