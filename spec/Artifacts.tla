------------------------------ MODULE Artifacts ------------------------------
(***************************************************************************)
(* C15 Builds are deterministic.                                           *)
(*                                                                         *)
(* The build of a package is an opaque function; the property delimits it: *)
(* the artifacts of a package under a build profile are a FUNCTION of the  *)
(* package source (and profile) alone -- not of the process that ran the   *)
(* build (hash seeds, thread count, working directory, what was built      *)
(* before).  Same shape as Pipeline!Execute: the first build of a          *)
(* <<package, profile>> binds its artifacts, every later build of the same *)
(* key must produce the same artifacts; there is no action for "a second   *)
(* build produced something else", so a recorded build log in which that   *)
(* happens is not a behaviour of this specification.                        *)
(*                                                                         *)
(* An artifact value is the tuple                                          *)
(*   <<ok, sha256(bytecode), sha256(JSON ABI file), sha256(storage slots   *)
(*     JSON file), derived id file (predicate root / script bytecode hash)>>*)
(* of the files exactly as forc wrote them ("none" where forc writes no    *)
(* such file for the program type, or the build failed with diagnostics).  *)
(* Contract ids and predicate roots are pure functions of bytecode and     *)
(* storage slots (Derived below), hence equal whenever the artifacts are.  *)
(***************************************************************************)
EXTENDS Naturals, Sequences, FiniteSets, TLC

VARIABLES art,      \* partial function: <<pkg, profile>> -> artifact tuple (bound by the first build)
          builds    \* number of Build steps taken (progress / statistics only)

avars == <<art, builds>>

AInit == art = [k \in {} |-> <<>>] /\ builds = 0

\* one build of `pkg` under `profile` in a fresh process produced artifact tuple `a`
Build(pkg, profile, a) ==
    LET key == <<pkg, profile>> IN
    /\ IF key \in DOMAIN art
          THEN art[key] = a /\ art' = art
          ELSE art' = [k \in DOMAIN art \cup {key} |-> IF k = key THEN a ELSE art[k]]
    /\ builds' = builds + 1

=============================================================================
