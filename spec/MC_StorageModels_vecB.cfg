\* all histories over vecB alone (24-byte elements straddle slot boundaries), lengths 0..4
CONSTANT UnitWord = 0
CONSTANT Active = {"vecB"}
CONSTANT Vals = {1, 2}
CONSTANT Keys = {1, 2}
CONSTANT MaxLen = 4
CONSTANT SliceLens = {0, 1}
CONSTANT VecArgs = {0, 1, 21}
SPECIFICATION Spec
INVARIANT Refines
INVARIANT RetAgree
PROPERTY FrameProp
CHECK_DEADLOCK FALSE
