------------------------------ MODULE AbiCodec ------------------------------
(***************************************************************************)
(* The Fuel ABI codec of Sway (encoding version 1) -- C09, C10, C13.       *)
(*                                                                         *)
(* 1. ABI-encodable types and values (extends SwaySem's value vocabulary). *)
(* 2. Canonical encoding EncT(t, v) and prefix decoder DecT(t, bytes) with *)
(*    validity (bool byte in {0,1}, known enum tag, enough bytes).         *)
(* 3. The compiler's type lowering and layout: Ir(t) (sway-core            *)
(*    ir_generation/convert.rs + types.rs), IrSize (sway-ir irtype.rs      *)
(*    Type::size), RtRepr (get_runtime_representation), EncRepr            *)
(*    (get_encoding_representation), the in-memory bytes Mem(t, v).        *)
(* 4. TrivialEnc / TrivialDec: line-by-line transcription of the           *)
(*    is_encode_trivial / is_decode_trivial impls of sway-lib-std          *)
(*    (codec.sw, vec.sw, bytes.sw, string.sw) and of the derived impls     *)
(*    (auto_impl/abi_encoding.rs).                                         *)
(* 5. EncImpl: what `encode::<T>` computes (memcpy fast path included).    *)
(* 6. The statements TLC checks for every type tree of a bounded universe  *)
(*    (MC_AbiCodec.tla) and the acceptance predicates used by              *)
(*    Trace_AbiCodec.tla on observations of real programs.                 *)
(*                                                                         *)
(* This module has no variables.                                           *)
(***************************************************************************)
EXTENDS SwaySem, FiniteSets

(***************************************************************************)
(* 1. Types.  Uniform shape [k, n, es] so that JSON <-> TLA+ is the        *)
(*    identity: k kind, n = array length / str[N] length (0 otherwise),    *)
(*    es = component types (fields, variants, element, type arguments).    *)
(***************************************************************************)
Ty(k, n, es) == [k |-> k, n |-> n, es |-> es]
TLeaf(k)     == Ty(k, 0, <<>>)
TStrArr(n)   == Ty("strarr", n, <<>>)
TTuple(es)   == Ty("tuple", 0, es)
TStruct(es)  == Ty("struct", 0, es)
TEnum(es)    == Ty("enum", 0, es)
TArray(e, n) == Ty("array", n, <<e>>)
TOption(e)   == Ty("option", 0, <<e>>)
TResult(a, b) == Ty("result", 0, <<a, b>>)
TVec(e)      == Ty("vec", 0, <<e>>)
TUnit        == TLeaf("unit")

IntKinds   == {"u8", "u16", "u32", "u64", "u256"}
WordKinds  == IntKinds \cup {"b256"}                 \* fixed-width big-endian scalars
BytesKinds == {"str", "bytes", "string"}             \* u64 length + raw bytes
ProdKinds  == {"tuple", "struct"}
EnumKinds  == {"enum", "option", "result"}
LeafKinds  == WordKinds \cup BytesKinds \cup {"bool", "unit", "strarr"}

\* the variants of an enum-like type, in tag order (std: Option { None, Some(T) }, Result { Ok(T), Err(E) })
Variants(t) == IF t.k = "option" THEN <<TUnit, t.es[1]>> ELSE t.es

RECURSIVE WellFormed(_)
WellFormed(t) ==
    CASE t.k \in LeafKinds -> t.es = <<>>
      [] t.k \in ProdKinds -> \A i \in DOMAIN t.es : WellFormed(t.es[i])
      [] t.k = "enum" -> Len(t.es) >= 1 /\ \A i \in DOMAIN t.es : WellFormed(t.es[i])
      [] t.k \in {"array", "option", "vec"} -> Len(t.es) = 1 /\ WellFormed(t.es[1])
      [] t.k = "result" -> Len(t.es) = 2 /\ WellFormed(t.es[1]) /\ WellFormed(t.es[2])
      [] OTHER -> FALSE

RECURSIVE Depth(_)
SetMax(S) == IF S = {} THEN 0 ELSE CHOOSE x \in S : \A y \in S : y <= x
Depth(t) == IF t.es = <<>> THEN 0 ELSE 1 + SetMax({ Depth(t.es[i]) : i \in DOMAIN t.es })

\* no heap-allocated component: the value has a layout that is a function of the value alone
RECURSIVE Static(_)
Static(t) == t.k \notin (BytesKinds \cup {"vec"}) /\ \A i \in DOMAIN t.es : Static(t.es[i])

(***************************************************************************)
(* Values: SwaySem's IntV / BoolV / Unit / AggV / EnumV, plus              *)
(*   StrV(bytes)  for str[N], str, Bytes, String (the raw bytes)           *)
(*   VecV(es)     for Vec<T>                                               *)
(* b256 values are IntV("b256", 32 bytes).  Enum tags are 0-based.         *)
(***************************************************************************)
StrV(bs) == [k |-> "s", b |-> bs]
VecV(es) == [k |-> "v", es |-> es]

RECURSIVE HasType(_, _)
HasType(v, t) ==
    CASE t.k \in WordKinds -> v.k = "i" /\ v.t = t.k /\ Len(v.b) = WidthOf(t.k) /\ \A i \in DOMAIN v.b : v.b[i] \in 0..255
      [] t.k = "bool" -> v.k = "b" /\ v.v \in BOOLEAN
      [] t.k = "unit" -> v = Unit
      [] t.k = "strarr" -> v.k = "s" /\ Len(v.b) = t.n
      [] t.k \in BytesKinds -> v.k = "s"
      [] t.k \in ProdKinds -> v.k = "a" /\ Len(v.es) = Len(t.es) /\ \A i \in DOMAIN t.es : HasType(v.es[i], t.es[i])
      [] t.k = "array" -> v.k = "a" /\ Len(v.es) = t.n /\ \A i \in DOMAIN v.es : HasType(v.es[i], t.es[1])
      [] t.k \in EnumKinds -> v.k = "e" /\ v.tag < Len(Variants(t)) /\ HasType(v.v, Variants(t)[v.tag + 1])
      [] t.k = "vec" -> v.k = "v" /\ \A i \in DOMAIN v.es : HasType(v.es[i], t.es[1])

(***************************************************************************)
(* 2. Canonical encoding (Fuel ABI, encoding version 1):                   *)
(*    integers big-endian at their own width, bool one byte, b256 32 bytes,*)
(*    str[N] its N bytes, str/Bytes/String u64 length + bytes, tuples /    *)
(*    structs / arrays concatenation, enums u64 tag + payload of the       *)
(*    variant, Vec u64 length + elements.  Nothing is padded.              *)
(***************************************************************************)
U64BE(n) == ToBE(FromNat(n, 8))

RECURSIVE EncT(_, _), EncFields(_, _, _), EncElems(_, _, _)
EncT(t, v) ==
    CASE t.k \in WordKinds -> ToBE(v.b)
      [] t.k = "bool" -> IF v.v THEN <<1>> ELSE <<0>>
      [] t.k = "unit" -> <<>>
      [] t.k = "strarr" -> v.b
      [] t.k \in BytesKinds -> U64BE(Len(v.b)) \o v.b
      [] t.k \in ProdKinds -> EncFields(t.es, v.es, 1)
      [] t.k = "array" -> EncElems(t.es[1], v.es, 1)
      [] t.k \in EnumKinds -> U64BE(v.tag) \o EncT(Variants(t)[v.tag + 1], v.v)
      [] t.k = "vec" -> U64BE(Len(v.es)) \o EncElems(t.es[1], v.es, 1)
EncFields(ts, vs, i) == IF i > Len(ts) THEN <<>> ELSE EncT(ts[i], vs[i]) \o EncFields(ts, vs, i + 1)
EncElems(t, vs, i) == IF i > Len(vs) THEN <<>> ELSE EncT(t, vs[i]) \o EncElems(t, vs, i + 1)

(***************************************************************************)
(* Prefix decoder.  DecT(t, bs) = [ok, v, rest]; ok = FALSE when bs does   *)
(* not start with the encoding of a value of t: too few bytes, a bool byte *)
(* other than 0/1, an enum tag that names no variant.                      *)
(***************************************************************************)
DFail == [ok |-> FALSE, v |-> Unit, rest |-> <<>>]
DOk(v, rest) == [ok |-> TRUE, v |-> v, rest |-> rest]
Take(bs, n) == SubSeq(bs, 1, n)
Drop(bs, n) == SubSeq(bs, n + 1, Len(bs))

\* a u64 that must be usable as a count: [ok, n, rest]; counts >= 2^24 can never be satisfied by a model buffer
DecCount(bs) ==
    IF Len(bs) < 8 THEN [ok |-> FALSE, n |-> 0, rest |-> <<>>]
    ELSE LET w == FromBE(Take(bs, 8)) IN
         IF ~IsSmall(w) THEN [ok |-> FALSE, n |-> 0, rest |-> <<>>]
         ELSE [ok |-> TRUE, n |-> ToNat(w), rest |-> Drop(bs, 8)]

RECURSIVE DecT(_, _), DecFields(_, _, _, _), DecElems(_, _, _, _)
DecT(t, bs) ==
    CASE t.k \in WordKinds ->
            LET w == WidthOf(t.k) IN
            IF Len(bs) < w THEN DFail ELSE DOk(IntV(t.k, FromBE(Take(bs, w))), Drop(bs, w))
      [] t.k = "bool" ->
            IF Len(bs) < 1 THEN DFail
            ELSE IF bs[1] = 0 THEN DOk(BoolV(FALSE), Tail(bs))
            ELSE IF bs[1] = 1 THEN DOk(BoolV(TRUE), Tail(bs))
            ELSE DFail
      [] t.k = "unit" -> DOk(Unit, bs)
      [] t.k = "strarr" -> IF Len(bs) < t.n THEN DFail ELSE DOk(StrV(Take(bs, t.n)), Drop(bs, t.n))
      [] t.k \in BytesKinds ->
            LET c == DecCount(bs) IN
            IF ~c.ok \/ Len(c.rest) < c.n THEN DFail ELSE DOk(StrV(Take(c.rest, c.n)), Drop(c.rest, c.n))
      [] t.k \in ProdKinds -> DecFields(t.es, bs, 1, <<>>)
      [] t.k = "array" -> DecElems(t.es[1], t.n, bs, <<>>)
      [] t.k \in EnumKinds ->
            LET c == DecCount(bs) IN
            IF ~c.ok \/ c.n >= Len(Variants(t)) THEN DFail
            ELSE LET p == DecT(Variants(t)[c.n + 1], c.rest) IN
                 IF ~p.ok THEN DFail ELSE DOk(EnumV(c.n, p.v), p.rest)
      [] t.k = "vec" ->
            LET c == DecCount(bs) IN
            IF ~c.ok THEN DFail
            ELSE LET r == DecElems(t.es[1], c.n, c.rest, <<>>) IN
                 IF ~r.ok THEN DFail ELSE DOk(VecV(r.v.es), r.rest)
DecFields(ts, bs, i, acc) ==
    IF i > Len(ts) THEN DOk(AggV(acc), bs)
    ELSE LET r == DecT(ts[i], bs) IN IF ~r.ok THEN DFail ELSE DecFields(ts, r.rest, i + 1, Append(acc, r.v))
DecElems(t, n, bs, acc) ==
    IF Len(acc) >= n THEN DOk(AggV(acc), bs)
    ELSE LET r == DecT(t, bs) IN IF ~r.ok THEN DFail ELSE DecElems(t, n, r.rest, Append(acc, r.v))

\* bs is exactly the encoding of some value of t
ValidEnc(t, bs) == DecT(t, bs).ok /\ DecT(t, bs).rest = <<>>

(***************************************************************************)
(* Encoded-size bounds: transcription of TypeInfo::abi_encode_size_hint    *)
(* (sway-core type_system/info.rs).  [lo, hi]; hi = Inf for unbounded.     *)
(* The compiler reserves EncMax(t) bytes for a configurable of type t.     *)
(***************************************************************************)
Inf == 1000000
SeqSum(s) == LET RECURSIVE S(_) S(i) == IF i > Len(s) THEN 0 ELSE s[i] + S(i + 1) IN S(1)
SeqMaxN(s) == SetMax({ s[i] : i \in DOMAIN s })
SetMin(S) == CHOOSE x \in S : \A y \in S : x <= y
Sat(n) == IF n >= Inf THEN Inf ELSE n
RECURSIVE EncMin(_), EncMax(_)
EncMin(t) ==
    CASE t.k \in WordKinds -> WidthOf(t.k)
      [] t.k = "bool" -> 1
      [] t.k = "unit" -> 0
      [] t.k = "strarr" -> t.n
      [] t.k \in BytesKinds \cup {"vec"} -> 8
      [] t.k \in ProdKinds -> SeqSum([i \in DOMAIN t.es |-> EncMin(t.es[i])])
      [] t.k = "array" -> t.n * EncMin(t.es[1])
      [] t.k \in EnumKinds -> 8 + SetMin({ EncMin(Variants(t)[i]) : i \in DOMAIN Variants(t) })
EncMax(t) ==
    CASE t.k \in WordKinds -> WidthOf(t.k)
      [] t.k = "bool" -> 1
      [] t.k = "unit" -> 0
      [] t.k = "strarr" -> t.n
      [] t.k \in BytesKinds \cup {"vec"} -> Inf
      [] t.k \in ProdKinds -> Sat(SeqSum([i \in DOMAIN t.es |-> EncMax(t.es[i])]))
      [] t.k = "array" -> Sat(t.n * EncMax(t.es[1]))
      [] t.k \in EnumKinds -> Sat(8 + SetMax({ EncMax(Variants(t)[i]) : i \in DOMAIN Variants(t) }))
FixedLen(t) == EncMin(t) = EncMax(t)

(***************************************************************************)
(* 3. Lowering to IR types.  IR types reuse the shape [k, n, es]:          *)
(*    unit bool u8 u64 u256 b256 ptr slice strarr(n) array(n,<<e>>)        *)
(*    struct(es) union(es).                                                *)
(*    convert.rs: u8 -> Uint(8); u16, u32, u64 -> Uint(64); tuples and     *)
(*    structs -> Struct; enums -> create_tagged_union_type: { u64 } when   *)
(*    every variant is zero-sized, else { u64, Union(variants) }.          *)
(*    std: Vec<T> { buf: RawVec<T> { ptr: raw_ptr, cap: u64 }, len: u64 }, *)
(*    Bytes { buf: RawBytes { ptr, cap }, len }, String { bytes: Bytes }.  *)
(***************************************************************************)
Aligned(n) == ((n + 7) \div 8) * 8

RECURSIVE IrSize(_)
IrSize(ir) ==                                   \* Type::size(..).in_bytes()
    CASE ir.k = "unit" -> 0
      [] ir.k \in {"bool", "u8"} -> 1
      [] ir.k \in {"u64", "ptr"} -> 8
      [] ir.k \in {"u256", "b256"} -> 32
      [] ir.k = "slice" -> 16
      [] ir.k = "strarr" -> Aligned(ir.n)                     \* str_array_no_padding = false
      [] ir.k = "array" -> ir.n * IrSize(ir.es[1])
      [] ir.k = "struct" -> SeqSum([i \in DOMAIN ir.es |-> Aligned(IrSize(ir.es[i]))])
      [] ir.k = "union" -> SetMax({ Aligned(IrSize(ir.es[i])) : i \in DOMAIN ir.es })

IrRawBuf == Ty("struct", 0, <<TLeaf("ptr"), TLeaf("u64")>>)
IrBytes  == Ty("struct", 0, <<IrRawBuf, TLeaf("u64")>>)
RECURSIVE Ir(_)
Ir(t) ==
    CASE t.k = "u8" -> TLeaf("u8")
      [] t.k \in {"u16", "u32", "u64"} -> TLeaf("u64")
      [] t.k \in {"u256", "b256", "bool", "unit"} -> TLeaf(t.k)
      [] t.k = "strarr" -> TStrArr(t.n)
      [] t.k = "str" -> TLeaf("slice")
      [] t.k \in ProdKinds -> Ty("struct", 0, [i \in DOMAIN t.es |-> Ir(t.es[i])])
      [] t.k = "array" -> Ty("array", t.n, <<Ir(t.es[1])>>)
      [] t.k \in EnumKinds ->
            LET fs == [i \in DOMAIN Variants(t) |-> Ir(Variants(t)[i])] IN
            IF \A i \in DOMAIN fs : IrSize(fs[i]) = 0
            THEN Ty("struct", 0, <<TLeaf("u64")>>)
            ELSE Ty("struct", 0, <<TLeaf("u64"), Ty("union", 0, fs)>>)
      [] t.k \in {"vec", "bytes"} -> IrBytes
      [] t.k = "string" -> Ty("struct", 0, <<IrBytes>>)

SizeOf(t) == IrSize(Ir(t))                        \* __size_of::<T>()

(***************************************************************************)
(* MemoryRepresentation (function.rs): Padding pN, Blob bN, And {..},      *)
(* Or (..|..), Array [r; n] -- again [k, n, es].                           *)
(***************************************************************************)
RPad(n)   == Ty("pad", n, <<>>)
RBlob(n)  == Ty("blob", n, <<>>)
RAnd(es)  == Ty("and", 0, es)
ROr(es)   == Ty("or", 0, es)
RArr(e, n) == Ty("arr", n, <<e>>)
RNone     == Ty("none", 0, <<>>)                  \* Option::None of get_encoding_representation

RECURSIVE RLen(_)
RLen(r) ==                                        \* MemoryRepresentation::len_in_bytes
    CASE r.k \in {"pad", "blob"} -> r.n
      [] r.k = "and" -> SeqSum([i \in DOMAIN r.es |-> RLen(r.es[i])])
      [] r.k = "or" -> SetMax({ RLen(r.es[i]) : i \in DOMAIN r.es })
      [] r.k = "arr" -> RLen(r.es[1]) * r.n

\* get_runtime_representation(ctx, ir)
RECURSIVE RtRepr(_), RtStructItems(_, _, _)
RtRepr(ir) ==
    CASE ir.k = "unit" -> RAnd(<<>>)
      [] ir.k \in {"bool", "u8"} -> RBlob(1)
      [] ir.k \in {"u64", "ptr"} -> RBlob(8)
      [] ir.k \in {"u256", "b256"} -> RBlob(32)
      [] ir.k = "slice" -> RBlob(16)
      [] ir.k = "struct" -> RAnd(RtStructItems(ir.es, 1, 0))
      [] ir.k = "union" ->
            LET items == [i \in DOMAIN ir.es |-> RtRepr(ir.es[i])]
                biggest == SetMax({ RLen(items[i]) : i \in DOMAIN items })
                padw == IF biggest % 8 = 0 THEN 0 ELSE Aligned(biggest) - biggest
            IN ROr([i \in DOMAIN items |->
                      LET total == padw + (biggest - RLen(items[i])) IN
                      IF total > 0 THEN RAnd(<<RPad(total), items[i]>>) ELSE items[i]])
      [] ir.k = "strarr" ->
            IF ir.n % 8 # 0 THEN RAnd(<<RBlob(ir.n), RPad(Aligned(ir.n) - ir.n)>>) ELSE RBlob(ir.n)
      [] ir.k = "array" -> RArr(RtRepr(ir.es[1]), ir.n)
\* the struct arm: a field that does not end on a word boundary is grouped with its trailing padding
RtStructItems(fs, i, off) ==
    IF i > Len(fs) THEN <<>>
    ELSE LET r == RtRepr(fs[i])
             end == off + RLen(r)
         IN IF end % 8 # 0
            THEN <<RAnd(<<r, RPad(Aligned(end) - end)>>)>> \o RtStructItems(fs, i + 1, Aligned(end))
            ELSE <<r>> \o RtStructItems(fs, i + 1, end)

\* the `assert!(offset_in_bytes == position_in_bytes)` of the struct arm, and size agreement
RECURSIVE LayoutConsistent(_)
LayoutConsistent(ir) ==
    /\ RLen(RtRepr(ir)) = IrSize(ir)
    /\ \A i \in DOMAIN ir.es : LayoutConsistent(ir.es[i])

\* get_encoding_representation(engines, type_info); RNone propagates like `?`
RECURSIVE EncRepr(_)
EncRepr(t) ==
    CASE t.k = "bool" -> RBlob(1)
      [] t.k \in WordKinds -> RBlob(WidthOf(t.k))
      [] t.k = "unit" -> RAnd(<<>>)
      [] t.k = "strarr" -> RBlob(t.n)
      [] t.k = "str" -> RNone
      [] t.k \in ProdKinds ->
            LET items == [i \in DOMAIN t.es |-> EncRepr(t.es[i])] IN
            IF \E i \in DOMAIN items : items[i] = RNone THEN RNone ELSE RAnd(items)
      [] t.k \in EnumKinds ->
            LET vs == [i \in DOMAIN Variants(t) |-> EncRepr(Variants(t)[i])] IN
            IF \E i \in DOMAIN vs : vs[i] = RNone THEN RNone
            ELSE IF \A i \in DOMAIN vs : RLen(vs[i]) = 0 THEN RAnd(<<RBlob(8)>>)
            ELSE RAnd(<<RBlob(8), ROr(vs)>>)
      [] t.k = "array" -> IF EncRepr(t.es[1]) = RNone THEN RNone ELSE RArr(EncRepr(t.es[1]), t.n)
      [] t.k \in {"vec", "bytes", "string"} -> RNone           \* a struct with a raw_ptr field

\* __runtime_mem_id::<T>() == __encoding_mem_id::<T>()  (ids are hashes of the representations; the
\* encoding id of RNone is 0; hash collisions are not modelled)
MemIdEq(t) == EncRepr(t) # RNone /\ RtRepr(Ir(t)) = EncRepr(t)

(***************************************************************************)
(* In-memory bytes of a value of a Static type.  Padding bytes are the     *)
(* marker PAD (their content is unspecified); MemBytes zero-fills them.    *)
(* Struct fields are right-padded to words; a union variant is left-padded *)
(* to the (word-aligned) size of the union; u16/u32 occupy a whole word;   *)
(* u8/bool occupy one byte; arrays are packed at the element's raw size.   *)
(***************************************************************************)
PAD == 256
Pads(n) == [i \in 1..n |-> PAD]
RECURSIVE Mem(_, _), MemFields(_, _, _), MemElems(_, _, _)
Mem(t, v) ==
    CASE t.k \in {"u8", "u64", "u256", "b256"} -> ToBE(v.b)
      [] t.k \in {"u16", "u32"} -> ToBE(Resize(v.b, 8))
      [] t.k = "bool" -> IF v.v THEN <<1>> ELSE <<0>>
      [] t.k = "unit" -> <<>>
      [] t.k = "strarr" -> v.b \o Pads(Aligned(t.n) - t.n)
      [] t.k \in ProdKinds -> MemFields(t.es, v.es, 1)
      [] t.k = "array" -> MemElems(t.es[1], v.es, 1)
      [] t.k \in EnumKinds ->
            LET vs == Variants(t)
                usz == SetMax({ Aligned(SizeOf(vs[i])) : i \in DOMAIN vs })
                vt == vs[v.tag + 1]
            IN U64BE(v.tag) \o (IF usz = 0 THEN <<>> ELSE Pads(usz - SizeOf(vt)) \o Mem(vt, v.v))
MemFields(ts, vs, i) ==
    IF i > Len(ts) THEN <<>>
    ELSE LET m == Mem(ts[i], vs[i]) IN m \o Pads(Aligned(Len(m)) - Len(m)) \o MemFields(ts, vs, i + 1)
MemElems(t, vs, i) == IF i > Len(vs) THEN <<>> ELSE Mem(t, vs[i]) \o MemElems(t, vs, i + 1)

MemBytes(t, v) == LET m == Mem(t, v) IN [i \in DOMAIN m |-> IF m[i] = PAD THEN 0 ELSE m[i]]
\* observed raw bytes agree with the layout wherever the layout specifies a byte
MemMatches(t, v, obs) ==
    LET m == Mem(t, v) IN Len(obs) = Len(m) /\ \A i \in DOMAIN m : m[i] = PAD \/ m[i] = obs[i]

(***************************************************************************)
(* 4. Classification.  Each arm names the impl it transcribes.             *)
(***************************************************************************)
RECURSIVE TrivialEnc(_), TrivialDec(_)
TrivialEnc(t) ==
    CASE t.k \in {"bool", "b256", "u256", "u64", "u8", "unit"} -> TRUE       \* codec.sw
      [] t.k \in {"u32", "u16", "str"} -> FALSE                               \* codec.sw
      [] t.k = "strarr" -> FALSE                \* codec.sw, experimental_str_array_no_padding = false
      [] t.k = "array" -> TrivialEnc(t.es[1])                                 \* impl for [T; N]
      [] t.k \in ProdKinds ->                   \* tuple impls in codec.sw / derived struct impl
            MemIdEq(t) /\ \A i \in DOMAIN t.es : TrivialEnc(t.es[i])
      [] t.k \in EnumKinds ->                   \* derived enum impl (Option and Result are derived too)
            MemIdEq(t) /\ \A i \in DOMAIN Variants(t) : TrivialEnc(Variants(t)[i])
      [] t.k \in {"vec", "bytes", "string"} -> FALSE                          \* vec.sw bytes.sw string.sw
TrivialDec(t) ==
    CASE t.k \in {"b256", "u256", "u64", "u8", "unit"} -> TRUE
      [] t.k \in {"u32", "u16", "bool", "str"} -> FALSE
      [] t.k = "strarr" -> FALSE
      [] t.k = "array" -> TrivialDec(t.es[1])
      [] t.k \in ProdKinds -> MemIdEq(t) /\ \A i \in DOMAIN t.es : TrivialDec(t.es[i])
      [] t.k \in EnumKinds -> FALSE             \* derived enum impl: literally `false`
      [] t.k \in {"vec", "bytes", "string"} -> FALSE

(***************************************************************************)
(* 5. What the library computes.                                           *)
(*    encode::<T>(v): IS_TRIVIAL ? memcpy(&v, __size_of::<T>()) : abi_encode*)
(*    abi_encode walks the value; the only nested shortcut is Vec<T>, which *)
(*    appends len * __size_of::<T>() raw bytes of its buffer when T is      *)
(*    trivially encodable (the buffer holds the elements at their raw size).*)
(***************************************************************************)
RECURSIVE AbiEncode(_, _), AbiEncodeFields(_, _, _), AbiEncodeElems(_, _, _), RawElems(_, _, _)
AbiEncode(t, v) ==
    CASE t.k \in LeafKinds -> EncT(t, v)                      \* __encode_buffer_append of a primitive
      [] t.k \in ProdKinds -> AbiEncodeFields(t.es, v.es, 1)
      [] t.k = "array" -> AbiEncodeElems(t.es[1], v.es, 1)
      [] t.k \in EnumKinds -> U64BE(v.tag) \o AbiEncode(Variants(t)[v.tag + 1], v.v)
      [] t.k = "vec" ->
            U64BE(Len(v.es)) \o
            (IF TrivialEnc(t.es[1]) THEN RawElems(t.es[1], v.es, 1) ELSE AbiEncodeElems(t.es[1], v.es, 1))
AbiEncodeFields(ts, vs, i) == IF i > Len(ts) THEN <<>> ELSE AbiEncode(ts[i], vs[i]) \o AbiEncodeFields(ts, vs, i + 1)
AbiEncodeElems(t, vs, i) == IF i > Len(vs) THEN <<>> ELSE AbiEncode(t, vs[i]) \o AbiEncodeElems(t, vs, i + 1)
RawElems(t, vs, i) == IF i > Len(vs) THEN <<>> ELSE MemBytes(t, vs[i]) \o RawElems(t, vs, i + 1)

EncImpl(t, v) == IF TrivialEnc(t) THEN MemBytes(t, v) ELSE AbiEncode(t, v)

(***************************************************************************)
(* Representative values: a sequence Reps(t) (boundary values; composite   *)
(* types combine their components' representatives diagonally; every       *)
(* variant of an enum occurs; Vec lengths 0, 1, 3).                        *)
(***************************************************************************)
Pattern(w) == [i \in 1..w |-> (i * 37 + 11) % 256]           \* little-endian, all bytes distinct-ish
AsciiUp(n) == [i \in 1..n |-> 65 + ((i - 1) % 26)]           \* "ABC..."
AsciiLow(n) == [i \in 1..n |-> 97 + ((i * 7) % 26)]
Nth(s, i) == s[((i - 1) % Len(s)) + 1]
CapLen(s, n) == IF Len(s) <= n THEN s ELSE SubSeq(s, 1, n)

RECURSIVE Reps(_)
Reps(t) ==
    CASE t.k \in WordKinds ->
            LET w == WidthOf(t.k) IN <<IntV(t.k, Zero(w)), IntV(t.k, MaxOf(t.k)), IntV(t.k, Pattern(w))>>
      [] t.k = "bool" -> <<BoolV(FALSE), BoolV(TRUE)>>
      [] t.k = "unit" -> <<Unit>>
      [] t.k = "strarr" -> IF t.n = 0 THEN <<StrV(<<>>)>> ELSE <<StrV(AsciiUp(t.n)), StrV(AsciiLow(t.n))>>
      [] t.k = "str" -> <<StrV(<<>>), StrV(AsciiLow(2)), StrV(AsciiUp(13))>>
      [] t.k = "string" -> <<StrV(<<>>), StrV(AsciiUp(3)), StrV(AsciiLow(9))>>
      [] t.k = "bytes" -> <<StrV(<<>>), StrV(<<0>>), StrV(<<1, 2, 255, 0, 128, 7, 8, 9, 10>>)>>
      [] t.k \in ProdKinds ->
            LET rs == [i \in DOMAIN t.es |-> Reps(t.es[i])]
                n == IF t.es = <<>> THEN 1 ELSE SetMax({ Len(rs[i]) : i \in DOMAIN rs })
                m == IF n > 3 THEN 3 ELSE n
            IN [j \in 1..m |-> AggV([i \in DOMAIN t.es |-> Nth(rs[i], j)])]
      [] t.k = "array" ->
            LET r == Reps(t.es[1])
                m == IF t.n = 0 THEN 1 ELSE IF Len(r) > 3 THEN 3 ELSE Len(r)
            IN [j \in 1..m |-> AggV([i \in 1..t.n |-> Nth(r, i + j - 1)])]
      [] t.k \in EnumKinds ->
            LET vs == Variants(t)
                RECURSIVE All(_)
                All(i) == IF i > Len(vs) THEN <<>>
                          ELSE LET r == CapLen(Reps(vs[i]), 2) IN
                               [j \in DOMAIN r |-> EnumV(i - 1, r[j])] \o All(i + 1)
            IN All(1)
      [] t.k = "vec" ->
            LET r == Reps(t.es[1]) IN
            <<VecV(<<>>), VecV(<<Nth(r, 2)>>), VecV(<<Nth(r, 1), Nth(r, 2), Nth(r, 3)>>)>>

(***************************************************************************)
(* 6. Statements about one type tree t (checked by TLC for every t of the  *)
(*    bounded universes of MC_AbiCodec).                                   *)
(***************************************************************************)
IsProperPrefix(a, b) == Len(a) < Len(b) /\ SubSeq(b, 1, Len(a)) = a
Junk == <<170, 2, 255>>
Const(n, b) == [i \in 1..n |-> b]

\* Every statement takes the type t, its representatives rs = Reps(t) and their encodings
\* es[i] = EncT(t, rs[i]) (computed once per type tree).

\* C09: decoding inverts encoding (also when followed by further bytes); sizes are within the bounds
\* the compiler assumes
RoundTrip(t, rs, es) ==
    \A i \in DOMAIN rs :
        /\ HasType(rs[i], t)
        /\ DecT(t, es[i]) = DOk(rs[i], <<>>)
        /\ DecT(t, es[i] \o Junk) = DOk(rs[i], Junk)
        /\ EncMin(t) <= Len(es[i]) /\ Len(es[i]) <= EncMax(t)
\* encodings of distinct values are distinct and none is a proper prefix of another
PrefixFree(t, rs, es) ==
    \A i, j \in DOMAIN rs : rs[i] # rs[j] => es[i] # es[j] /\ ~IsProperPrefix(es[i], es[j])
\* a proper prefix of an encoding is never accepted ("truncated buffer")
TruncationRejected(t, rs, es) ==
    \A i \in DOMAIN rs :
        \A n \in (IF Len(es[i]) = 0 THEN {} ELSE {0, Len(es[i]) \div 2, Len(es[i]) - 1}) :
            ~DecT(t, Take(es[i], n)).ok
\* SwaySem.Enc (used by C01..C07 for `log`) is this encoding on the common fragment
RECURSIVE InSwaySem(_)
InSwaySem(t) == t.k \notin (BytesKinds \cup {"vec", "strarr"}) /\ \A i \in DOMAIN t.es : InSwaySem(t.es[i])
AgreesWithSwaySem(t, rs, es) == InSwaySem(t) => \A i \in DOMAIN rs : Enc(rs[i]) = es[i]

\* layout facts
LayoutOK(t, rs, es) ==
    /\ LayoutConsistent(Ir(t))
    /\ Static(t) => \A i \in DOMAIN rs : Len(Mem(t, rs[i])) = SizeOf(t)
    /\ MemIdEq(t) => RLen(EncRepr(t)) = SizeOf(t)

\* C10 (encode): a trivially encodable type has a value-determined layout without padding, and the raw
\* bytes of every value are its canonical encoding ...
TrivialEncSound(t, rs, es) ==
    TrivialEnc(t) =>
        /\ Static(t)
        /\ \A i \in DOMAIN rs :
              LET m == Mem(t, rs[i]) IN (\A j \in DOMAIN m : m[j] # PAD) /\ m = es[i]
\* ... hence what the library computes (fast paths included, also the one nested in Vec) is canonical
EncImplCanonical(t, rs, es) == \A i \in DOMAIN rs : EncImpl(t, rs[i]) = es[i]

\* C10 (decode): a trivially decodable type is decoded by copying SizeOf(t) bytes.  That is sound iff
\* every byte string of that length is the memory image of a valid value whose encoding it is.
Adversarial(t, es) ==
    LET n == SizeOf(t) IN
    { Const(n, 0), Const(n, 1), Const(n, 2), Const(n, 255), [i \in 1..n |-> (i * 89 + 3) % 256] }
        \cup { es[i] : i \in DOMAIN es }
TrivialDecSound(t, rs, es) ==
    TrivialDec(t) =>
        /\ Static(t)
        /\ FixedLen(t) /\ EncMax(t) = SizeOf(t)
        /\ \A b \in Adversarial(t, es) :
              LET d == DecT(t, b) IN
              d.ok /\ d.rest = <<>> /\ HasType(d.v, t) /\ Mem(t, d.v) = b
\* the derived rules make decode-triviality at most encode-triviality
DecImpliesEnc(t) == TrivialDec(t) => TrivialEnc(t)

Facts(t) ==
    LET rs == Reps(t)
        es == [i \in DOMAIN rs |-> EncT(t, rs[i])]
    IN [ wellformed |-> WellFormed(t),
         roundtrip |-> RoundTrip(t, rs, es), prefixfree |-> PrefixFree(t, rs, es),
         truncation |-> TruncationRejected(t, rs, es), swaysem |-> AgreesWithSwaySem(t, rs, es),
         layout |-> LayoutOK(t, rs, es), trivialenc |-> TrivialEncSound(t, rs, es),
         encimpl |-> EncImplCanonical(t, rs, es), trivialdec |-> TrivialDecSound(t, rs, es),
         decimpliesenc |-> DecImpliesEnc(t) ]
AllFacts(t) == LET f == Facts(t) IN \A k \in DOMAIN f : f[k]
\* the names of the statements that fail for t
FailedFacts(t) == LET f == Facts(t) IN { k \in DOMAIN f : ~f[k] }

(***************************************************************************)
(* Observations of real programs (used by Trace_AbiCodec).                 *)
(*                                                                         *)
(* Leaf walk of a value: the order in which a generated test logs the      *)
(* components of a decoded value (struct/tuple/array: components in order; *)
(* enum: the payload of the matched variant; Vec: len(), then elements;    *)
(* scalars, str[N], str, Bytes, String: the value itself; unit: nothing).  *)
(***************************************************************************)
RECURSIVE LeafLogs(_, _), LeafLogsSeq(_, _, _), LeafLogsElems(_, _, _)
LeafLogs(t, v) ==
    CASE t.k = "unit" -> <<>>
      [] t.k \in LeafKinds -> <<EncT(t, v)>>
      [] t.k \in ProdKinds -> LeafLogsSeq(t.es, v.es, 1)
      [] t.k = "array" -> LeafLogsElems(t.es[1], v.es, 1)
      [] t.k \in EnumKinds -> LeafLogs(Variants(t)[v.tag + 1], v.v)
      [] t.k = "vec" -> <<U64BE(Len(v.es))>> \o LeafLogsElems(t.es[1], v.es, 1)
LeafLogsSeq(ts, vs, i) == IF i > Len(ts) THEN <<>> ELSE LeafLogs(ts[i], vs[i]) \o LeafLogsSeq(ts, vs, i + 1)
LeafLogsElems(t, vs, i) == IF i > Len(vs) THEN <<>> ELSE LeafLogs(t, vs[i]) \o LeafLogsElems(t, vs, i + 1)

\* `log(x)` of a raw_slice holding bytes bs
SliceLog(bs) == U64BE(Len(bs)) \o bs

(***************************************************************************)
(* "As described by the program's JSON ABI": a is the projection of the    *)
(* ABI's description of a logged type: [k, n, name, es, ns, targs] with    *)
(* k the ABI kind, name the declared path, es/ns component types / names,  *)
(* targs the type arguments.  Generated programs name struct fields        *)
(* f0, f1, ... and enum variants V0, V1, ... in declaration order.         *)
(***************************************************************************)
Digits == <<"0", "1", "2", "3", "4", "5", "6", "7", "8", "9", "10", "11", "12", "13", "14", "15">>
NameSeq(p, n) == [i \in 1..n |-> p \o Digits[i]]
AbiLeaf(a, k) == a.k = k /\ a.es = <<>> /\ a.targs = <<>>
RECURSIVE AbiDescribes(_, _)
AbiDescribes(a, t) ==
    CASE t.k \in (WordKinds \cup {"bool", "unit", "str"}) -> AbiLeaf(a, t.k)
      [] t.k = "strarr" -> AbiLeaf(a, "strarr") /\ a.n = t.n
      [] t.k = "tuple" ->
            /\ a.k = "tuple" /\ Len(a.es) = Len(t.es)
            /\ \A i \in DOMAIN t.es : a.ns[i] = "__tuple_element" /\ AbiDescribes(a.es[i], t.es[i])
      [] t.k = "array" ->
            /\ a.k = "array" /\ a.n = t.n /\ Len(a.es) = 1
            /\ a.ns = <<"__array_element">> /\ AbiDescribes(a.es[1], t.es[1])
      [] t.k = "struct" ->
            /\ a.k = "struct" /\ Len(a.es) = Len(t.es) /\ a.ns = NameSeq("f", Len(t.es))
            /\ \A i \in DOMAIN t.es : AbiDescribes(a.es[i], t.es[i])
      [] t.k = "enum" ->
            /\ a.k = "enum" /\ Len(a.es) = Len(t.es) /\ a.ns = NameSeq("V", Len(t.es))
            /\ \A i \in DOMAIN t.es : AbiDescribes(a.es[i], t.es[i])
      [] t.k = "option" ->
            /\ a.k = "enum" /\ a.name = "std::option::Option" /\ a.ns = <<"None", "Some">>
            /\ AbiDescribes(a.es[1], TUnit) /\ AbiDescribes(a.es[2], t.es[1])
            /\ Len(a.targs) = 1 /\ AbiDescribes(a.targs[1], t.es[1])
      [] t.k = "result" ->
            /\ a.k = "enum" /\ a.name = "std::result::Result" /\ a.ns = <<"Ok", "Err">>
            /\ AbiDescribes(a.es[1], t.es[1]) /\ AbiDescribes(a.es[2], t.es[2])
            /\ Len(a.targs) = 2 /\ AbiDescribes(a.targs[1], t.es[1]) /\ AbiDescribes(a.targs[2], t.es[2])
      [] t.k = "vec" ->
            /\ a.k = "struct" /\ a.name = "std::vec::Vec" /\ a.ns = <<"buf", "len">>
            /\ Len(a.targs) = 1 /\ AbiDescribes(a.targs[1], t.es[1])
      [] t.k = "bytes" -> a.k = "struct" /\ a.name = "std::bytes::Bytes" /\ a.ns = <<"buf", "len">>
      [] t.k = "string" -> a.k = "struct" /\ a.name = "std::string::String" /\ a.ns = <<"bytes">>
=============================================================================
