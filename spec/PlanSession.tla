---------------------------- MODULE PlanSession ----------------------------
(***************************************************************************)
(* X01: the planning session of `forc build` (forc-pkg/src/pkg.rs,         *)
(* BuildPlan::from_pkg_opts -> from_lock_and_manifests) over a SEQUENCE of *)
(* manifest edits, path dependencies only.                                 *)
(*                                                                         *)
(* Packages are 1..N (directory and project name "p<k>"), the root and     *)
(* only member is 1.  Dependency names are 0..N: k > 0 is the string       *)
(* "p<k>", 0 is the alias "dx".  A manifest entry <<p, d, q>> is the line  *)
(*     <d> = { path = "../p<q>" [, package = "p<q>" when d # q] }          *)
(* in p's [dependencies] (keys are unique per package).  A graph edge      *)
(* <<a, d, b>> is "a depends on b under the name d" (pkg::Graph, weight    *)
(* Edge.name).  The lock file on disk is [st, nodes, edges]:               *)
(*   st = "none" (no file) | "garbage" (not a Lock) | "graph"; an edge     *)
(* whose target is not a node models a dependency line without package     *)
(* entry (Lock::to_graph fails).  The root is pinned "member", every other *)
(* package "path+from-root-<id of root>".                                  *)
(*                                                                         *)
(* One planning step = ReadManifests, LoadLock, ValidateLock, Resolve,     *)
(* Emit*, (OrderStuck | WriteLock), transcribed from the code, step by     *)
(* step, as pure operators (so that the generator and the trace spec use   *)
(* the same definitions) wrapped in actions.  The compilation order is     *)
(* BuildOrder's planner (C22), instantiated on the resolved graph.         *)
(***************************************************************************)
EXTENDS Naturals, Sequences, FiniteSets, TLC

CONSTANTS N,        \* number of packages
          MaxEnv    \* bound on the number of environment actions in one session

Root == 1
Pkgs == 1..N
Names == 0..N
Triples == Pkgs \X Names \X Pkgs

EmptyG == [nodes |-> {}, edges |-> {}]
NoLock == [st |-> "none", nodes |-> {}, edges |-> {}]
Garbage == [st |-> "garbage", nodes |-> {}, edges |-> {}]
LockOfGraph(gr) == [st |-> "graph", nodes |-> gr.nodes, edges |-> gr.edges]
NoRes == [out |-> "none", cls |-> "", nodes |-> {}, edges |-> {}, order |-> <<>>, wrote |-> FALSE]

Max(S) == CHOOSE x \in S : \A y \in S : y <= x

\* edge name dropped: BuildOrder's graphs
Plain(gr) == [nodes |-> gr.nodes, edges |-> { <<e[1], e[3]>> : e \in gr.edges }]

\* nodes reachable from `frontier` through a set of triples
RECURSIVE ReachT(_, _, _)
ReachT(es, frontier, seen) ==
    LET next == { e[3] : e \in { x \in es : x[1] \in frontier } } \ seen
    IN IF next = {} THEN seen ELSE ReachT(es, next, seen \cup next)

(***************************************************************************)
(* Manifests.                                                              *)
(***************************************************************************)
HasKey(m, p, d) == \E e \in m : e[1] = p /\ e[2] = d
\* PackageManifest::validate: "Dependency <name> collides with project name." (a key equal to the own
\* project name) and "Dependency <name> declares an alias ("package" field) that is the same as project
\* name" (an aliased dependency on the package itself): the manifest of p cannot be loaded at all.
\* Hence no loadable manifest depends on its own package.
BadManifest(m, p) == \E e \in m : e[1] = p /\ (e[2] = p \/ e[3] = p)
\* packages whose manifests a fresh traversal from the root reads
ManReach(m) == ReachT(m, {Root}, {Root})
\* fetch_deps visits a manifest's [dependencies] in BTreeMap (= name) order and calls
\* graph.update_edge(node, dep_node, Edge{name}): of several keys for the same target the last wins
MaxKey(m, a, b) == Max({ e[2] : e \in { x \in m : x[1] = a /\ x[3] = b } })
ClosureNodes(m) == ManReach(m)
ClosureEdges(m) == { <<e[1], MaxKey(m, e[1], e[3]), e[3]>> : e \in { x \in m : x[1] \in ManReach(m) } }
Closure(m) == [nodes |-> ClosureNodes(m), edges |-> ClosureEdges(m)]
SomeManifestBad(m) == \E p \in ManReach(m) : BadManifest(m, p)

(***************************************************************************)
(* LoadLock: Lock::from_path + Lock::to_graph.                             *)
(* Result [g, cause, loaded]: the working graph, whether new_lock_cause is *)
(* set, and the Lock value the final diff is taken against.                *)
(***************************************************************************)
\* to_graph adds the dependency lines of a package in list order (sorted text:
\* "(dx) pB" < "(p1) pB" < ... < "pB") with update_edge: the un-aliased line wins, else the largest alias
LineRank(e) == IF e[2] = e[3] THEN N + 1 ELSE e[2]
Collapse(es) == { e \in es : \A f \in es : (f[1] = e[1] /\ f[3] = e[3]) => LineRank(f) <= LineRank(e) }
Dangling(lk) == \E e \in lk.edges : e[3] \notin lk.nodes
LoadOp(lk) ==
    IF lk.st # "graph" THEN [g |-> EmptyG, cause |-> TRUE, loaded |-> EmptyG]
    ELSE IF Dangling(lk) THEN [g |-> EmptyG, cause |-> TRUE, loaded |-> [nodes |-> lk.nodes, edges |-> lk.edges]]
    ELSE [g |-> [nodes |-> lk.nodes, edges |-> Collapse(lk.edges)], cause |-> FALSE,
          loaded |-> [nodes |-> lk.nodes, edges |-> lk.edges]]

(***************************************************************************)
(* ValidateLock: validate_graph + remove_deps.                             *)
(*                                                                         *)
(* validate_dep(graph, manifests, dep_edge, dep_node) looks the PARENT     *)
(* manifest up as `manifests.get(dep_edge.name)` where `manifests` are the *)
(* workspace MEMBERS: an edge is examined against the manifest of the      *)
(* member called like the dependency NAME (not the manifest of the edge's  *)
(* source).  With the single member p1 an edge <<a, d, b>> can only be     *)
(* valid when d = "p1"; then (dep_path) the root manifest must have a key  *)
(* "p<b>" with an existing path, (dep_entry) a key "p1" whose source       *)
(* equals that path, and the package found there must be called "p<b>".    *)
(* For b = root the compared sources are Member(<manifest FILE path>) and  *)
(* Member(<dir>) which differ.  find_path_root walks `first incoming edge` *)
(* (= the edge from the largest-named parent, to_graph inserts in name     *)
(* order and petgraph iterates newest first) until it meets the member; it *)
(* has no cycle guard (fuel exhausted = the real loop does not terminate). *)
(***************************************************************************)
Parents(gr, b) == { e[1] : e \in { x \in gr.edges : x[3] = b } }
RECURSIVE PathRoot(_, _, _)
PathRoot(gr, b, fuel) ==
    IF b = Root THEN "ok"
    ELSE IF Parents(gr, b) = {} THEN "fail"
    ELSE IF fuel = 0 THEN "hang"
    ELSE PathRoot(gr, Max(Parents(gr, b)), fuel - 1)

ValidEdge(m, gr, e) ==
    /\ e[2] = Root /\ e[3] # Root
    /\ PathRoot(gr, e[3], N) = "ok"
    /\ <<Root, e[3], e[3]>> \in m
    /\ <<Root, Root, e[3]>> \in m
HangEdge(gr, e) == e[2] = Root /\ e[3] # Root /\ PathRoot(gr, e[3], N) = "hang"

RECURSIVE ValidReach(_, _, _, _)
ValidReach(m, gr, frontier, seen) ==
    LET next == { e[3] : e \in { x \in gr.edges : x[1] \in frontier /\ ValidEdge(m, gr, x) } } \ seen
    IN IF next = {} THEN seen ELSE ValidReach(m, gr, next, seen \cup next)

\* edges validate_deps looks at: the out-edges of everything reached from the member through valid edges
Examined(m, gr) ==
    IF Root \notin gr.nodes THEN {}
    ELSE { e \in gr.edges : e[1] \in ValidReach(m, gr, {Root}, {Root}) }
\* "If no member nodes, the graph is either empty or corrupted. Remove all edges."
InvalidEdges(m, gr) ==
    IF Root \notin gr.nodes THEN gr.edges ELSE { e \in Examined(m, gr) : ~ValidEdge(m, gr, e) }
ValidateHangs(m, gr) == \E e \in Examined(m, gr) : HangEdge(gr, e)

CyclicG(gr) == \E a \in gr.nodes : a \in ReachT(gr.edges, {a}, {})

\* remove_deps: a cyclic lock graph is dropped entirely; otherwise the invalid edges go, then (in
\* dependency order) every non-member node that has no parent left
RemoveDeps(gr, inv) ==
    IF CyclicG(gr) THEN EmptyG
    ELSE LET es == gr.edges \ inv
             keep == IF Root \in gr.nodes THEN ReachT(es, {Root}, {Root}) ELSE {}
         IN [nodes |-> keep, edges |-> { e \in es : e[1] \in keep }]
ValidateOp(m, gr) == RemoveDeps(gr, InvalidEdges(m, gr))

\* graph_to_manifest_map (BFS from the root over the surviving graph): the path of a surviving
\* dependency b is looked up in a surviving parent's manifest under the key "p<b>" (the PACKAGE name)
MapStepFails(m, gr) ==
    \E b \in gr.nodes \ {Root} : ~ \E a \in Parents(gr, b) : <<a, b, b>> \in m

(***************************************************************************)
(* Resolve: fetch_graph from the root over the CURRENT manifests; nodes    *)
(* that are missing are added, update_edge overwrites edge names.          *)
(***************************************************************************)
ResolveOp(m, gr) ==
    LET reach == ManReach(m)
        over(e) == e[1] \in reach /\ \E x \in m : x[1] = e[1] /\ x[3] = e[3]
    IN [nodes |-> gr.nodes \cup reach,
        edges |-> { e \in gr.edges : ~over(e) } \cup ClosureEdges(m)]

(***************************************************************************)
(* The whole planning step as a function (used by the generator and by the *)
(* properties): the lock on disk after planning with the given manifests.  *)
(***************************************************************************)
PlanFails(m, lk) ==
    \/ BadManifest(m, Root)
    \/ ValidateHangs(m, LoadOp(lk).g)
    \/ MapStepFails(m, ValidateOp(m, LoadOp(lk).g))
    \/ SomeManifestBad(m)
    \/ CyclicG(ResolveOp(m, ValidateOp(m, LoadOp(lk).g)))
PlanGraph(m, lk) == ResolveOp(m, ValidateOp(m, LoadOp(lk).g))
NeedsWrite(m, lk) == LoadOp(lk).cause \/ PlanGraph(m, lk) # LoadOp(lk).loaded
LockAfterPlan(m, lk) ==
    IF PlanFails(m, lk) \/ ~NeedsWrite(m, lk) THEN lk ELSE LockOfGraph(PlanGraph(m, lk))

\* "the manifests match the lock": the lock is exactly the pinned closure of the manifests
Matches(m, lk) == lk = LockOfGraph(Closure(m))

(***************************************************************************)
(* Environment actions as data: [a, p, d, q].                              *)
(***************************************************************************)
Act(a, p, d, q) == [a |-> a, p |-> p, d |-> d, q |-> q]
EnvEnabled(act, m, lk) ==
    CASE act.a = "AddDep"         -> ~HasKey(m, act.p, act.d)
      [] act.a = "RemoveDep"      -> HasKey(m, act.p, act.d) /\ act.q = 0
      [] act.a = "Retarget"       -> HasKey(m, act.p, act.d) /\ <<act.p, act.d, act.q>> \notin m
      [] act.a = "DeleteLock"     -> lk.st # "none"
      [] act.a = "CorruptGarbage" -> lk.st = "graph"
      [] act.a = "CorruptAddNode" -> lk.st = "graph" /\ act.q \notin lk.nodes /\ act.q # Root
      [] act.a = "CorruptDropNode"-> lk.st = "graph" /\ act.q \in lk.nodes
      [] act.a = "CorruptAddEdge" -> lk.st = "graph" /\ act.p \in lk.nodes /\ <<act.p, act.d, act.q>> \notin lk.edges
      [] act.a = "CorruptDropEdge"-> lk.st = "graph" /\ <<act.p, act.d, act.q>> \in lk.edges
      [] act.a = "Replan"         -> TRUE
      [] OTHER -> FALSE
EnvMan(act, m) ==
    CASE act.a = "AddDep"    -> m \cup {<<act.p, act.d, act.q>>}
      [] act.a = "RemoveDep" -> { e \in m : ~(e[1] = act.p /\ e[2] = act.d) }
      [] act.a = "Retarget"  -> { e \in m : ~(e[1] = act.p /\ e[2] = act.d) } \cup {<<act.p, act.d, act.q>>}
      [] OTHER -> m
EnvLock(act, lk) ==
    CASE act.a = "DeleteLock"      -> NoLock
      [] act.a = "CorruptGarbage"  -> Garbage
      [] act.a = "CorruptAddNode"  -> [lk EXCEPT !.nodes = @ \cup {act.q}]
      [] act.a = "CorruptDropNode" -> [lk EXCEPT !.nodes = @ \ {act.q}, !.edges = { e \in @ : e[1] # act.q }]
      [] act.a = "CorruptAddEdge"  -> [lk EXCEPT !.edges = @ \cup {<<act.p, act.d, act.q>>}]
      [] act.a = "CorruptDropEdge" -> [lk EXCEPT !.edges = @ \ {<<act.p, act.d, act.q>>}]
      [] OTHER -> lk

(***************************************************************************)
(* The state machine.                                                      *)
(***************************************************************************)
VARIABLES
    man,      \* manifests on disk: set of <<p, d, q>>
    lock,     \* Forc.lock on disk
    pc,       \* "idle" | "read" | "load" | "validate" | "resolve" | "order" | "write"
    locked,   \* the --locked flag of the running planning step
    g,        \* the working graph of the running planning step
    cause,    \* new_lock_cause is set
    loaded,   \* the Lock value read from disk (as a graph)
    emitted,  \* compilation order under construction
    res,      \* outcome of the last planning step finished since the last environment action
    nenv      \* number of environment actions so far

vars == <<man, lock, pc, locked, g, cause, loaded, emitted, res, nenv>>
planvars == <<locked, g, cause, loaded, emitted>>

BO == INSTANCE BuildOrder WITH g <- Plain(g), emitted <- emitted

Bases == { {}, {<<1, 2, 2>>, <<2, N, N>>}, {<<1, 0, 2>>, <<1, N, N>>} }

Init ==
    /\ man \in Bases
    /\ lock = NoLock
    /\ pc = "idle" /\ locked = FALSE /\ g = EmptyG /\ cause = FALSE /\ loaded = EmptyG
    /\ emitted = <<>> /\ res = NoRes /\ nenv = 0

\* --- environment
Env(act) ==
    /\ pc = "idle" /\ nenv < MaxEnv
    /\ EnvEnabled(act, man, lock)
    /\ man' = EnvMan(act, man)
    /\ lock' = EnvLock(act, lock)
    /\ res' = NoRes
    /\ nenv' = nenv + 1
    /\ UNCHANGED <<pc, planvars>>

\* the named environment actions (each restates its guard; Env applies the effect)
EditAddDep(p, d, q) ==            \* a new line  <d> = { path = "../p<q>" [, package = ..] }  in p's manifest
    /\ ~HasKey(man, p, d)
    /\ Env(Act("AddDep", p, d, q))
EditRemoveDep(p, d) ==
    /\ HasKey(man, p, d)
    /\ Env(Act("RemoveDep", p, d, 0))
EditRetarget(p, d, q) ==          \* the same dependency name now points at another package
    /\ HasKey(man, p, d) /\ <<p, d, q>> \notin man
    /\ Env(Act("Retarget", p, d, q))
DeleteLock ==
    /\ lock.st # "none"
    /\ Env(Act("DeleteLock", 0, 0, 0))
CorruptGarbage ==                 \* the file is no longer a Lock
    /\ lock.st = "graph"
    /\ Env(Act("CorruptGarbage", 0, 0, 0))
CorruptAddNode(q) ==              \* a stale [[package]] entry
    /\ lock.st = "graph" /\ q \notin lock.nodes
    /\ Env(Act("CorruptAddNode", 0, 0, q))
CorruptDropNode(q) ==             \* a [[package]] entry (with its dependency lines) is lost
    /\ lock.st = "graph" /\ q \in lock.nodes
    /\ Env(Act("CorruptDropNode", 0, 0, q))
CorruptAddEdge(p, d, q) ==        \* a stale dependency line
    /\ lock.st = "graph" /\ p \in lock.nodes
    /\ Env(Act("CorruptAddEdge", p, d, q))
CorruptDropEdge(p, d, q) ==       \* a dependency line is lost
    /\ lock.st = "graph" /\ <<p, d, q>> \in lock.edges
    /\ Env(Act("CorruptDropEdge", p, d, q))
CorruptLock ==
    \/ CorruptGarbage
    \/ \E q \in Pkgs : CorruptAddNode(q) \/ CorruptDropNode(q)
    \/ \E p \in Pkgs, d \in Names, q \in Pkgs : CorruptAddEdge(p, d, q) \/ CorruptDropEdge(p, d, q)

\* --- one planning step
Fail(cls) ==
    /\ res' = [NoRes EXCEPT !.out = "err", !.cls = cls]
    /\ pc' = "idle"

StartPlan(lk) ==
    /\ pc = "idle"
    /\ pc' = "read" /\ locked' = lk
    /\ g' = EmptyG /\ cause' = FALSE /\ loaded' = EmptyG /\ emitted' = <<>>
    /\ UNCHANGED <<man, lock, res, nenv>>

\* ManifestFile::from_dir + member_manifests (from_pkg_opts)
ReadManifests ==
    /\ pc = "read"
    /\ IF BadManifest(man, Root) THEN Fail("manifest")
       ELSE pc' = "load" /\ UNCHANGED res
    /\ UNCHANGED <<man, lock, nenv, planvars>>

LoadLock ==
    /\ pc = "load"
    /\ g' = LoadOp(lock).g /\ cause' = LoadOp(lock).cause /\ loaded' = LoadOp(lock).loaded
    /\ pc' = "validate"
    /\ UNCHANGED <<man, lock, res, nenv, locked, emitted>>

ValidateLock ==
    /\ pc = "validate"
    /\ IF ValidateHangs(man, g)
         THEN res' = [NoRes EXCEPT !.out = "hang"] /\ pc' = "idle" /\ UNCHANGED g
       ELSE IF MapStepFails(man, ValidateOp(man, g)) THEN Fail("other") /\ UNCHANGED g
       ELSE g' = ValidateOp(man, g) /\ pc' = "resolve" /\ UNCHANGED res
    /\ UNCHANGED <<man, lock, nenv, locked, cause, loaded, emitted>>

Resolve ==
    /\ pc = "resolve"
    /\ IF SomeManifestBad(man) THEN Fail("manifest") /\ UNCHANGED g
       ELSE g' = ResolveOp(man, g) /\ pc' = "order" /\ UNCHANGED res
    /\ UNCHANGED <<man, lock, nenv, locked, cause, loaded, emitted>>

\* compilation_order: BuildOrder's planner
Emit(a) ==
    /\ pc = "order" /\ a \in g.nodes
    /\ g' = g
    /\ BO!Emit(a)
    /\ UNCHANGED <<man, lock, pc, res, nenv, locked, cause, loaded>>

OrderStuck ==
    /\ pc = "order" /\ BO!Stuck
    /\ Fail("cycle")
    /\ UNCHANGED <<man, lock, nenv, planvars>>

OrderDone ==
    /\ pc = "order" /\ BO!Done
    /\ pc' = "write"
    /\ UNCHANGED <<man, lock, res, nenv, planvars>>

\* Lock::from_graph, Lock::diff, the --locked check, fs::write
WriteLock ==
    /\ pc = "write"
    /\ LET need == cause \/ g # loaded IN
        IF need /\ locked THEN Fail("locked") /\ UNCHANGED lock
        ELSE /\ lock' = IF need THEN LockOfGraph(g) ELSE lock
             /\ res' = [out |-> "ok", cls |-> "", nodes |-> g.nodes, edges |-> g.edges,
                        order |-> emitted, wrote |-> need]
             /\ pc' = "idle"
    /\ UNCHANGED <<man, nenv, planvars>>

PlanStep == ReadManifests \/ LoadLock \/ ValidateLock \/ Resolve \/ (\E a \in Pkgs : Emit(a))
            \/ OrderStuck \/ OrderDone \/ WriteLock

Next ==
    \/ \E p \in Pkgs, d \in Names, q \in Pkgs : EditAddDep(p, d, q)
    \/ \E p \in Pkgs, d \in Names : EditRemoveDep(p, d)
    \/ \E p \in Pkgs, d \in Names, q \in Pkgs : EditRetarget(p, d, q)
    \/ DeleteLock
    \/ CorruptLock
    \/ \E lk \in BOOLEAN : StartPlan(lk)
    \/ PlanStep

Spec == Init /\ [][Next]_vars

(***************************************************************************)
(* Properties.                                                             *)
(***************************************************************************)
TypeOK ==
    /\ man \subseteq Triples
    /\ \A e \in man, f \in man : (e[1] = f[1] /\ e[2] = f[2]) => e = f
    /\ lock.st \in {"none", "garbage", "graph"}
    /\ lock.nodes \subseteq Pkgs /\ lock.edges \subseteq Triples
    /\ \A e \in lock.edges : e[1] \in lock.nodes
    /\ pc \in {"idle", "read", "load", "validate", "resolve", "order", "write"}
    /\ res.out \in {"none", "ok", "err", "hang"}

Finishing == pc # "idle" /\ pc' = "idle"

\* the planned graph is exactly the closure of the root under the CURRENT manifests
PlannedGraphIsReachableClosure ==
    res.out = "ok" => (res.nodes = ClosureNodes(man) /\ res.edges = ClosureEdges(man))

\* (PlannedGraphIsReachableClosure states the edges as the code builds them: ONE edge per (package,
\* dependency package) pair, named by the last of the manifest keys.)  The strict reading, edge by edge:
ReachEntries(m) == { e \in m : e[1] \in ManReach(m) }
\* every planned edge is a manifest entry of a reachable package ...
PlannedEdgesAreManifestEntries == res.out = "ok" => res.edges \subseteq ReachEntries(man)
\* ... and every such entry is a planned edge.  VIOLATED by the transcription of fetch_deps (update_edge
\* keeps one name per package pair): checked alone in MC_PlanSession_alias.cfg, notes/X01.md finding F2.
AllEntriesPlanned(m, r) == ReachEntries(m) \subseteq r.edges
EveryManifestEntryPlanned == res.out = "ok" => AllEntriesPlanned(man, res)

\* nothing that exists only in the old lock gets into the plan
StaleLockNeverLeaks ==
    (pc \in {"order", "write"}) =>
        /\ (loaded.nodes \ ClosureNodes(man)) \cap g.nodes = {}
        /\ (loaded.edges \ ClosureEdges(man)) \cap g.edges = {}

\* after a successful planning step lock and plan agree ...
LockInSync == res.out = "ok" => lock = [st |-> "graph", nodes |-> res.nodes, edges |-> res.edges]
\* ... and planning again without edits (locked or not) succeeds with the same graph and leaves the file alone
LockFixpoint ==
    [][ (res.out = "ok" /\ Finishing) =>
            /\ res'.out = "ok" /\ res'.nodes = res.nodes /\ res'.edges = res.edges
            /\ ~res'.wrote /\ lock' = lock ]_vars

\* --locked fails exactly when the manifests no longer match the lock (other failures aside)
LockedFailsIffChanged ==
    [][ (Finishing /\ locked /\ res'.out # "hang" /\ res'.cls \notin {"manifest", "cycle"}) =>
            ((res'.out = "err" /\ res'.cls = "locked") <=> ~Matches(man, lock)) ]_vars
\* ... and never touches the file
LockedNeverWrites == [][ locked /\ pc # "idle" => lock' = lock ]_vars

\* the order is a compilation order of the planned graph (BuildOrder's notion)
OrderRespectsDeps ==
    /\ (pc = "order") => BO!PrefixRespectsDeps
    /\ (res.out = "ok") =>
          BO!IsOrder([nodes |-> res.nodes, edges |-> { <<e[1], e[3]>> : e \in res.edges }], res.order)

\* a dependency cycle in the current manifests <=> planning fails with the cycle error; no failing
\* planning step rewrites the lock file
CycleFailsAndKeepsLock ==
    [][ (Finishing /\ res'.out # "hang") =>
            /\ (res'.out = "err" /\ res'.cls = "cycle") <=>
                  (~BadManifest(man, Root) /\ ~SomeManifestBad(man) /\ CyclicG(Closure(man)))
            /\ (res'.out # "ok" => lock' = lock) ]_vars

\* the action decomposition agrees with the functional summary used by the generator
SummaryAgrees ==
    [][ (Finishing /\ ~locked) => lock' = LockAfterPlan(man, lock) ]_vars

\* every planning step returns.  VIOLATED by the transcription of validate_graph/find_path_root (a
\* hand-edited lock with a cycle below an edge named like the root): checked alone in
\* MC_PlanSession_term.cfg, see notes/X01.md finding F1.
PlanningTerminates == res.out # "hang"
PlanHangs(m, lk) == ~BadManifest(m, Root) /\ ValidateHangs(m, LoadOp(lk).g)
\* facts about the single-member case that TLC establishes
NoLockEdgeSurvives == (pc = "resolve") => g.edges = {}
MapNeverFails == ~(res.out = "err" /\ res.cls = "other")
=============================================================================
