---------------------------- MODULE MC_LspSched ----------------------------
(***************************************************************************)
(* TLC-only additions to LspSched (C24): schedules for the conformance      *)
(* harness vh-lspsched.                                                     *)
(*  - HistSpec carries the schedule that led to a state (`hist`, hidden     *)
(*    from the state identity by VIEW): counterexamples and fixed-seed      *)
(*    simulation runs are printed as replay records.                        *)
(*  - EdgeSpec prints every transition of the state graph; the driver       *)
(*    computes a set of schedules covering every transition.                *)
(* A schedule step is [thr, point, pos]: grant thread `thr` standing at     *)
(* step point `point`; afterwards the threads stand at `pos`.               *)
(***************************************************************************)
EXTENDS LspSched, Json

VARIABLE hist

PosMap == [t \in Threads |-> Pos(t)]

HistInit == Init /\ hist = <<>>
HistNext == \E t \in Threads :
                /\ Step(t)
                /\ hist' = Append(hist, [thr |-> t, point |-> Pos(t), pos |-> PosMap'])
HistSpec == HistInit /\ [][HistNext]_<<vars, hist>>
View == vars

Rec(tag, mechanism) == [inv |-> tag, mech |-> mechanism, steps |-> hist,
                        doc |-> docVersion, done |-> done]

\* invariants that print the schedule of the violation they find
CexNoHang     == NoHangButKnown     \/ (PrintT(<<"CEX", ToJson(Rec("NoHang", HangMechanism))>>) /\ FALSE)
CexNoLostEdit == NoLostEditButKnown \/ (PrintT(<<"CEX", ToJson(Rec("NoLostEdit", LostEditMechanism))>>) /\ FALSE)

\* simulation: print the schedule of every behaviour that ran to its end
PrintTerminal == Terminal => PrintT(<<"REPLAY", ToJson(Rec("", ""))>>)

\* ---- the state graph, edge by edge
EdgeInit == Init /\ hist = <<>> /\ PrintT(<<"INIT", ToJson([s |-> vars])>>)
EdgeNext == \E t \in Threads :
                /\ Step(t)
                /\ UNCHANGED hist
                /\ PrintT(<<"EDGE", ToJson([f |-> vars, t |-> vars', thr |-> t, point |-> Pos(t),
                                            pos |-> PosMap', term |-> Terminal'])>>)
EdgeSpec == EdgeInit /\ [][EdgeNext]_<<vars, hist>>
=============================================================================
