\* every atom string of length <= 4 over the core alphabet
CONSTANTS K = 4  Alphabet <- CoreAtoms  NSeeds = 0  SeedTok <- SeedTokImpl  SeedDelims <- SeedDelimsImpl  MaxOps = 0  Q = 1
INIT AtomInit
NEXT AtomNext
INVARIANT PrintAtoms
CHECK_DEADLOCK FALSE
