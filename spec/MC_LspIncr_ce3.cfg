\* a shortest history per mechanism on the sibling pair (quick tier; run with -workers 1); StopWhenAllSeen is violated iff all are reachable
CONSTANTS
  Mods = {"main", "a", "b"}
  NNames = 2
  MaxItems = 2
  MaxHist = 4
  Kinds = {"add", "delete", "rename", "sig", "arg", "ws"}
  CancelAt = {4}
  Inits = {"base"}
  KeepHist = TRUE
INIT CEInit
NEXT Next
INVARIANT NoteMechs
INVARIANT StopWhenAllSeen
CHECK_DEADLOCK FALSE
