SPECIFICATION TraceSpec
POSTCONDITION Accepted
CHECK_DEADLOCK FALSE
