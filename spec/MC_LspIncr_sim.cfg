\* fixed-seed random histories of 6 client actions (TLC -simulate), 4 modules, no cancellation, as replay records
CONSTANTS
  Mods = {"main", "a", "b", "c"}
  NNames = 2
  MaxItems = 3
  MaxHist = 6
  Kinds = {"add", "delete", "rename", "sig", "arg", "ws"}
  CancelAt = {}
  Inits = {"base", "err"}
  KeepHist = TRUE
SPECIFICATION Spec
INVARIANT PrintReplay
CHECK_DEADLOCK FALSE
