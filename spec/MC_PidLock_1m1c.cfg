\* 1 marker (mark; release) + 1 checker, every initial file, <= 1 crash, repaired protocol
CONSTANTS
  Procs = {1, 2}
  Prog <- Prog_1m1c
  AtomicPublish = TRUE
  InitFiles = {"absent", "empty", "garbage", "ghost"}
  MaxCrashes = 1
SPECIFICATION MCSpec
INVARIANT TypeOK
INVARIANT CulpritRecorded
INVARIANT LossReport
INVARIANT UnseenReport
INVARIANT StaleWitness
CHECK_DEADLOCK FALSE
