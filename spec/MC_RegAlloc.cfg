CONSTANTS
  MaxLen = 3
  NV = 3
  NP = 2
  Kinds = {"const", "mov", "inc", "add", "out", "jnz", "jmp"}
  Rule = "spec"
  Filter = TRUE
  RandLens = {}
  RandKinds = {}
  RandCount = 0
SPECIFICATION Spec
INVARIANT AllocatedRunAgrees
INVARIANT LiveAgree
CHECK_DEADLOCK FALSE
