\* exhaustive: all programs of <= 3 instructions over the full instruction set, all allocations
\* of 3 virtual registers to 2 physical registers accepted by the spec's rule
CONSTANTS
  MaxLen = 3
  NV = 3
  NP = 2
  Kinds = {"const", "mov", "inc", "add", "out", "jnz", "jmp"}
  Rule = "spec"
  Filter = TRUE
  RandLen = 0
  RandCount = 0
SPECIFICATION Spec
INVARIANT AllocatedRunAgrees
INVARIANT LiveAgree
CHECK_DEADLOCK FALSE
