--------------------------- MODULE Trace_SwaySem ---------------------------
(***************************************************************************)
(* Trace validation for C01/C02/C03/C07: what compiled bytecode did on the *)
(* FuelVM must be what the source-level semantics (SwaySem.Run) computes.  *)
(* One record per package:                                                 *)
(*   [id, prog |-> [fns, structs, enums],                                  *)
(*    tests |-> << [name, body, obs |-> << [cfg, logs, out, code] >>] >>]  *)
(* obs holds one observation per build configuration (profile, pass list,  *)
(* asm-opt selection); every one of them must equal Run(prog, body) --     *)
(* the semantics is deterministic, so agreement with it implies agreement  *)
(* between configurations.                                                 *)
(***************************************************************************)
EXTENDS SwaySem, Json, IOUtils

Rec == ndJsonDeserialize(IOEnv.TRACE)

VARIABLES l, k       \* package index, test index

Expected(r, t) == Run(r.prog, t.body)

\* observations of a script's `main` also carry the encoded return value
ObsAgrees(o, x) == /\ o.logs = x.logs /\ o.out = x.out /\ o.code = x.code
                   /\ ("ret" \in DOMAIN o /\ x.out = "return") => o.ret = x.ret

TestAccepted(r, t) ==
    LET x == Expected(r, t) IN \A i \in DOMAIN t.obs : ObsAgrees(t.obs[i], x)

TraceInit == l = 1 /\ k = 1 /\ TLCSet(1, 1) /\ TLCSet(2, 1)

TrTest ==
    /\ l <= Len(Rec) /\ k <= Len(Rec[l].tests)
    /\ TestAccepted(Rec[l], Rec[l].tests[k])
    /\ k' = k + 1 /\ l' = l
    /\ TLCSet(1, l) /\ TLCSet(2, k + 1)

TrNextPackage ==
    /\ l <= Len(Rec) /\ k > Len(Rec[l].tests)
    /\ l' = l + 1 /\ k' = 1
    /\ TLCSet(1, l + 1) /\ TLCSet(2, 1)

TraceNext == TrTest \/ TrNextPackage
TraceSpec == TraceInit /\ [][TraceNext]_<<l, k>>

Accepted ==
    IF TLCGet(1) = Len(Rec) + 1 THEN TRUE
    ELSE LET r == Rec[TLCGet(1)] t == r.tests[TLCGet(2)] IN
         Print(<<"FIRST-UNMATCHED", TLCGet(1), TLCGet(2), r.id, t.name, ToJson(Expected(r, t))>>, FALSE)
=============================================================================
