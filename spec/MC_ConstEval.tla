--------------------------- MODULE MC_ConstEval ---------------------------
(* TLC-only additions to ConstEval: one replay record per case.            *)
EXTENDS ConstEval, Json

PrintReplay ==
    Done => PrintT(<<"REPLAY", ToJson([cls |-> c.cls, ty |-> c.ty, e |-> c.e, expect |-> sem, ce |-> ce.k])>>)
=============================================================================
