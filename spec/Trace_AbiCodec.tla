--------------------------- MODULE Trace_AbiCodec ---------------------------
(***************************************************************************)
(* Trace validation for C09 / C10: observations of generated Sway programs *)
(* (built by forc, run on the FuelVM) are decided against AbiCodec.        *)
(* One ndjson record per observation:                                      *)
(*   Case    [t, v, abi, memdump, logs, out]   a test that logged v, the   *)
(*           slice encode(v), optionally the raw memory of v, then decoded *)
(*           the canonical bytes and logged the result whole and leaf by   *)
(*           leaf; abi = the JSON ABI's description of the logged type     *)
(*   Class   [t, logs, out]   is_encode_trivial, is_decode_trivial,        *)
(*           __runtime_mem_id == __encoding_mem_id, __size_of              *)
(*   Invalid [t, bytes, len, logs, out]  abi_decode::<T> of the first len  *)
(*           bytes of `bytes`, then log of the decoded value               *)
(*   Ret     [t, v, ret, logs, out]  a script whose main returns v: the    *)
(*           ReturnData receipt                                            *)
(* logs are LogData payloads in order; out is "return" or "revert".        *)
(***************************************************************************)
EXTENDS AbiCodec, Json, IOUtils

Rec == ndJsonDeserialize(IOEnv.TRACE)

VARIABLE l

BB(x) == IF x THEN <<1>> ELSE <<0>>

CaseExpected(r) ==
    LET e == EncT(r.t, r.v) IN
    [ head |-> <<e, SliceLog(e)>>, tail |-> <<e>> \o LeafLogs(r.t, r.v) ]
MemLogOK(r, lg) ==
    /\ Len(lg) >= 8 /\ Take(lg, 8) = U64BE(SizeOf(r.t))
    /\ MemMatches(r.t, r.v, Drop(lg, 8))
CaseChecks(r) ==
    LET x == CaseExpected(r) IN
    [ typed |-> HasType(r.v, r.t),
      returned |-> r.out = "return",
      abi |-> AbiDescribes(r.abi, r.t),
      encoded |-> Len(r.logs) >= 2 /\ SubSeq(r.logs, 1, 2) = x.head,
      memory |-> (~r.memdump) \/ (Len(r.logs) >= 3 /\ MemLogOK(r, r.logs[3])),
      decoded |-> LET k == IF r.memdump THEN 3 ELSE 2 IN SubSeq(r.logs, k + 1, Len(r.logs)) = x.tail ]
ClassExpected(r) == <<BB(TrivialEnc(r.t)), BB(TrivialDec(r.t)), BB(MemIdEq(r.t)), U64BE(SizeOf(r.t))>>
ClassChecks(r) == [ returned |-> r.out = "return", classification |-> r.logs = ClassExpected(r) ]
InvalidChecks(r) ==
    LET d == DecT(r.t, Take(r.bytes, r.len)) IN
    IF d.ok THEN [ valid_decodes |-> r.out = "return" /\ r.logs = <<EncT(r.t, d.v)>> ]
    ELSE [ invalid_reverts |-> r.out = "revert" /\ r.logs = <<>> ]
RetChecks(r) ==
    [ typed |-> HasType(r.v, r.t), returned |-> r.out = "return", returndata |-> r.ret = EncT(r.t, r.v) ]

Checks(r) ==
    CASE r.ev = "Case" -> CaseChecks(r)
      [] r.ev = "Class" -> ClassChecks(r)
      [] r.ev = "Invalid" -> InvalidChecks(r)
      [] r.ev = "Ret" -> RetChecks(r)
Accept(r) == LET c == Checks(r) IN \A k \in DOMAIN c : c[k]
Failed(r) == LET c == Checks(r) IN { k \in DOMAIN c : ~c[k] }
Expected(r) ==
    CASE r.ev = "Case" -> ToJson(CaseExpected(r))
      [] r.ev = "Class" -> ToJson(ClassExpected(r))
      [] r.ev = "Invalid" -> ToJson(DecT(r.t, Take(r.bytes, r.len)))
      [] r.ev = "Ret" -> ToJson(EncT(r.t, r.v))

\* Every record is decided.  A rejected record is printed (<<"REJECT", json>>) and counted, and validation goes
\* on with the next record, so that one run reports every disagreement; the trace is accepted iff none was.
SetToSeq(S) == LET RECURSIVE F(_) F(X) == IF X = {} THEN <<>> ELSE LET x == CHOOSE y \in X : TRUE IN <<x>> \o F(X \ {x}) IN F(S)
Reject(i) == PrintT(<<"REJECT", ToJson([index |-> i, failed |-> SetToSeq(Failed(Rec[i])), expected |-> Expected(Rec[i])])>>)
                /\ TLCSet(2, TLCGet(2) + 1)
TraceInit == l = 1 /\ TLCSet(1, 1) /\ TLCSet(2, 0)
TraceNext == /\ l <= Len(Rec)
             /\ IF Accept(Rec[l]) THEN TRUE ELSE Reject(l)
             /\ l' = l + 1 /\ TLCSet(1, l + 1)
TraceSpec == TraceInit /\ [][TraceNext]_l

Accepted ==
    /\ TLCGet(1) = Len(Rec) + 1 \/ Print(<<"FIRST-UNMATCHED", TLCGet(1)>>, FALSE)     \* a record could not be evaluated
    /\ TLCGet(2) = 0 \/ Print(<<"REJECTED", TLCGet(2)>>, FALSE)
=============================================================================
