-------------------------- MODULE Trace_ConstEval --------------------------
(***************************************************************************)
(* Trace validation for C06.  One record per case:                         *)
(*   [id, cls, ty, e |-> expression (SwaySem AST),                         *)
(*    obs |-> << [r, k, out, logs, code] >>]                               *)
(* r: the rendering  "c" run time (operands laundered, nothing folded)     *)
(*                   "a" const declaration     "g" configurable            *)
(*                   "h" const declaration whose initializer reaches the    *)
(*                       operation through two const fns (fl(a,b)=cf(b,a))  *)
(*                   "b" literals in a function body, release build        *)
(*                   "p" the same through ccp (operand known from `x == a`)*)
(*                   "f" the real const-folding pass run on the one IR      *)
(*                       instruction of a single-operator case (vh-fold):   *)
(*                       k = "folded" (logs = <<constant, big-endian>>) or  *)
(*                       "notfolded"; records of this kind are validated    *)
(*                       with Mode = "fold" (Trace_ConstEvalFold.cfg)       *)
(* k: "ran" (the package built and the test ran: out = "return"|"revert",  *)
(*    logs, code), "cerror" (the declaration was rejected with a compile   *)
(*    error), "panic" (the compiler panicked), anything else is rejected.  *)
(* Each record is loaded into the model (TrLoad), the model's RunTime and  *)
(* CompileTime actions compute sem and ce, and TrJudge compares every      *)
(* observation with them (the IR-instruction step FoldIR has no observable *)
(* of its own in a built package and is not replayed).                     *)
(***************************************************************************)
EXTENDS ConstEval, Json, IOUtils

CONSTANT Mode        \* "build": records of built packages (renderings c a g b p); "fold": records of vh-fold

Rec == ndJsonDeserialize(IOEnv.TRACE)

VARIABLE l

\* the test logged exactly the value / reverted with the panic code before logging anything
RunIs(s, o) ==
    /\ o.k = "ran"
    /\ IF s.k = "val" THEN o.out = "return" /\ o.logs = <<s.v>>
       ELSE o.out = "revert" /\ o.logs = <<>> /\ o.code = CodePanic

ObsOK(s, x, o) ==
    CASE o.r = "c" -> RunIs(s, o)
      [] o.r \in {"a", "g", "h"} ->
            IF o.k = "ran" THEN s.k = "val" /\ RunIs(s, o)              \* a value was substituted: it must be Sem's
            ELSE o.k = "cerror" /\ Refuse \in AllowedCompileTime(s, x)
      [] o.r \in {"b", "p"} ->
            IF o.k = "ran" THEN RunIs(s, o)
            ELSE o.k = "cerror" /\ s.k = "abort"
      [] OTHER -> FALSE

\* the pass folded exactly when the transcription does, to the same constant
FoldObsOK(f, o) ==
    /\ o.r = "f" /\ f.k = "inst"
    /\ IF f.f.k = "val" THEN o.k = "folded" /\ o.logs = <<ToBE(f.f.r)>> ELSE o.k = "notfolded"

\* one flag per observation of the record
Verdicts(r, s, x) == [j \in DOMAIN r.obs |-> ObsOK(s, x, r.obs[j])]
FoldVerdicts(r, f) == [j \in DOMAIN r.obs |-> FoldObsOK(f, r.obs[j])]

TraceInit == l = 1 /\ c = None /\ phase = "idle" /\ sem = None /\ ce = None /\ fold = None /\ TLCSet(1, 1) /\ TLCSet(2, 0)

TrLoad ==
    /\ phase = "idle" /\ l <= Len(Rec)
    /\ c' = Case(Rec[l].cls, Rec[l].ty, Rec[l].e)
    /\ phase' = (IF Mode = "fold" THEN "evaluated" ELSE "new")
    /\ sem' = None /\ ce' = None /\ fold' = None /\ l' = l

\* a record with a rejected observation is printed (with the model's sem and ce) and counted; the
\* validation goes on with the next record, and the run as a whole is not accepted
TrJudge ==
    /\ l <= Len(Rec)
    /\ IF Mode = "fold" THEN phase = "done" ELSE phase = "evaluated"
    /\ LET v == IF Mode = "fold" THEN FoldVerdicts(Rec[l], fold) ELSE Verdicts(Rec[l], sem, CEObs(ce)) IN
       IF \A j \in DOMAIN v : v[j] THEN TRUE
       ELSE /\ PrintT(<<"REJECT", ToJson([l |-> l, ok |-> v, sem |-> sem, ce |-> ce.k, fold |-> fold])>>)
            /\ TLCSet(2, TLCGet(2) + 1)
    /\ l' = l + 1 /\ TLCSet(1, l + 1)
    /\ phase' = "idle" /\ UNCHANGED <<c, sem, ce, fold>>

TraceNext ==
    \/ TrLoad
    \/ (Mode # "fold" /\ RunTime /\ l' = l)
    \/ (Mode # "fold" /\ CompileTime /\ l' = l)
    \/ (Mode = "fold" /\ FoldIR /\ l' = l)
    \/ TrJudge
TraceSpec == TraceInit /\ [][TraceNext]_<<vars, l>>

Accepted ==
    IF TLCGet(1) = Len(Rec) + 1 /\ TLCGet(2) = 0 THEN TRUE
    ELSE Print(<<"FIRST-UNMATCHED", TLCGet(1), "rejected", TLCGet(2)>>, FALSE)
=============================================================================
