-------------------------- MODULE Trace_ConstEval --------------------------
(***************************************************************************)
(* Trace validation for C06.  One record per case:                         *)
(*   [id, cls, ty, e |-> expression (SwaySem AST),                         *)
(*    obs |-> << [r, k, out, logs, code] >>]                               *)
(* r: the rendering  "c" run time (operands laundered, nothing folded)     *)
(*                   "a" const declaration     "g" configurable            *)
(*                   "b" literals in a function body, release build        *)
(*                   "p" the same through ccp (operand known from `x == a`)*)
(* k: "ran" (the package built and the test ran: out = "return"|"revert",  *)
(*    logs, code), "cerror" (the declaration was rejected with a compile   *)
(*    error), "panic" (the compiler panicked), anything else is rejected.  *)
(* Each record is loaded into the model (TrLoad), the model's RunTime and  *)
(* CompileTime actions compute sem and ce, and TrJudge compares every      *)
(* observation with them.                                                  *)
(***************************************************************************)
EXTENDS ConstEval, Json, IOUtils

Rec == ndJsonDeserialize(IOEnv.TRACE)

VARIABLE l

\* the test logged exactly the value / reverted with the panic code before logging anything
RunIs(s, o) ==
    /\ o.k = "ran"
    /\ IF s.k = "val" THEN o.out = "return" /\ o.logs = <<s.v>>
       ELSE o.out = "revert" /\ o.logs = <<>> /\ o.code = CodePanic

ObsOK(s, x, o) ==
    CASE o.r = "c" -> RunIs(s, o)
      [] o.r \in {"a", "g"} ->
            IF o.k = "ran" THEN s.k = "val" /\ RunIs(s, o)              \* a value was substituted: it must be Sem's
            ELSE o.k = "cerror" /\ Refuse \in AllowedCompileTime(s, x)
      [] o.r \in {"b", "p"} ->
            IF o.k = "ran" THEN RunIs(s, o)
            ELSE o.k = "cerror" /\ s.k = "abort"
      [] OTHER -> FALSE

FirstBad(r, s, x) ==
    LET bad == { j \in DOMAIN r.obs : ~ObsOK(s, x, r.obs[j]) }
    IN IF bad = {} THEN 0 ELSE CHOOSE j \in bad : \A i \in bad : j <= i

TraceInit == l = 1 /\ c = None /\ phase = "idle" /\ sem = None /\ ce = None /\ fold = None /\ TLCSet(1, 1) /\ TLCSet(2, 0)

TrLoad ==
    /\ phase = "idle" /\ l <= Len(Rec)
    /\ c' = Case(Rec[l].cls, Rec[l].ty, Rec[l].e)
    /\ phase' = "new" /\ sem' = None /\ ce' = None /\ fold' = None /\ l' = l

TrJudge ==
    /\ phase = "done" /\ l <= Len(Rec)
    /\ LET j == FirstBad(Rec[l], sem, CEObs(ce)) IN
       IF j = 0 THEN l' = l + 1 /\ TLCSet(1, l + 1) ELSE TLCSet(2, j) /\ FALSE
    /\ phase' = "idle" /\ UNCHANGED <<c, sem, ce, fold>>

TraceNext == TrLoad \/ (RunTime /\ l' = l) \/ (CompileTime /\ l' = l) \/ (FoldIR /\ l' = l) \/ TrJudge
TraceSpec == TraceInit /\ [][TraceNext]_<<vars, l>>

Accepted ==
    IF TLCGet(1) = Len(Rec) + 1 THEN TRUE
    ELSE LET r == Rec[TLCGet(1)] IN
         Print(<<"FIRST-UNMATCHED", TLCGet(1), TLCGet(2),
                 ToJson([sem |-> Sem(r.e), ce |-> CE(r.e).k])>>, FALSE)
=============================================================================
