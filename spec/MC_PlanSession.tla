-------------------------- MODULE MC_PlanSession --------------------------
(* TLC-only wrapper of PlanSession (X01): the exhaustive configurations     *)
(* MC_PlanSession.cfg (N = 3, MaxEnv = 3) and MC_PlanSession4.cfg (N = 4,   *)
(* MaxEnv = 2).  The history generator lives in Gen_PlanSession.tla.        *)
EXTENDS PlanSession
=============================================================================
