\* the protocol as found: F11, "fails forever" half.
\* EXPECTED RESULT: NoFailForever is violated (two fault-free builds in a row fail on the same partial tree)
CONSTANT NFiles = 3
CONSTANT ManifestIdx = 1
CONSTANT PlanNeeded = {1}
CONSTANT Needed = {1, 2}
CONSTANT MaxBuilds = 3
CONSTANT MaxFaults = 1
CONSTANT Protocol = "inplace"
SPECIFICATION Spec
INVARIANT TypeOK
INVARIANT NoFailForever
CHECK_DEADLOCK FALSE
