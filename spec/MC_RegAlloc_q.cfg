CONSTANTS
  MaxLen = 3
  NV = 3
  NP = 2
  Kinds = {"const", "mov", "inc", "out", "jnz"}
  Rule = "spec"
  Filter = TRUE
  RandLens = {4, 5}
  RandKinds = {"const", "mov", "inc", "add", "out", "jnz", "jmp"}
  RandCount = 3000
SPECIFICATION Spec
INVARIANT AllocatedRunAgrees
INVARIANT LiveAgree
CHECK_DEADLOCK FALSE
