\* every contract over the 12-name pool with 1..5 methods containing a related pair, both declaration orders:
\* the generated dispatcher selects exactly the named method for every selector tried
CONSTANT MaxCalls = 0
CONSTANT MaxSize = 5
CONSTANT PoolN = 12
CONSTANT GenStride = 1
SPECIFICATION StaticSpec
INVARIANT InvDispatchExact
INVARIANT InvUnique
CHECK_DEADLOCK FALSE
