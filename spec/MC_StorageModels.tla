------------------------- MODULE MC_StorageModels -------------------------
(***************************************************************************)
(* TLC-only additions to StorageModels:                                    *)
(*  - the lock-step machine (L1 state, L2 store) over all histories of the *)
(*    active fields under small bounds, with the refinement invariants;    *)
(*    (the conformance pool of long histories is Gen_StorageModels).       *)
(***************************************************************************)
EXTENDS StorageModels, Json

CONSTANTS Active,        \* fields that receive operations
          Vals,          \* value codes
          Keys,          \* map keys
          MaxLen,        \* vectors never grow beyond this (growth operations are disabled at MaxLen)
          SliceLens,     \* lengths written to StorageBytes / StorageString
          VecArgs        \* arguments of store_vec (decimal digits, least significant first)

\* a mutant of offset_calculator for the binding demonstration (cfg: OffCalc <- OffCalcNoPad)
OffCalcNoPad(ty, index) == (index * SizeB(ty)) \div 8

Op(f, op, a, b, c) == [f |-> f, op |-> op, a |-> a, b |-> b, c |-> c]
Idx == 0..MaxLen

VecOps(f, len) ==
    (IF len < MaxLen THEN { Op(f, "push", v, 0, 0) : v \in Vals } \cup { Op(f, "insert", i, v, 0) : i \in Idx, v \in Vals } ELSE {})
    \cup { Op(f, "pop", 0, 0, 0), Op(f, "reverse", 0, 0, 0), Op(f, "clear", 0, 0, 0) }
    \cup { Op(f, "set", i, v, 0) : i \in Idx, v \in Vals }
    \cup { Op(f, "remove", i, 0, 0) : i \in Idx } \cup { Op(f, "swap_remove", i, 0, 0) : i \in Idx }
    \cup { Op(f, "swap", i, j, 0) : i \in Idx, j \in Idx }
    \cup { Op(f, "fill", v, 0, 0) : v \in Vals }
    \cup { Op(f, "resize", n, v, 0) : n \in Idx, v \in Vals }
    \cup { Op(f, "store_vec", d, 0, 0) : d \in VecArgs }
MapOps(f) == { Op(f, "insert", key, v, 0) : key \in Keys, v \in Vals } \cup { Op(f, "remove", key, 0, 0) : key \in Keys }
             \cup { Op(f, "try_insert", key, v, 0) : key \in Keys, v \in Vals }
NestedOps == { Op("mapN", "insert", k1, k2, v) : k1 \in Keys, k2 \in Keys, v \in Vals }
             \cup { Op("mapN", "remove", k1, k2, 0) : k1 \in Keys, k2 \in Keys }
MapVecOps(m) == UNION { (IF Len(VecAt(m, key)) < MaxLen THEN { Op("mapV", "push", key, v, 0) : v \in Vals } ELSE {})
                        \cup { Op("mapV", "pop", key, 0, 0), Op("mapV", "clear", key, 0, 0) } : key \in Keys }
SliceOps(f) == { Op(f, "write", n, seed, 0) : n \in SliceLens, seed \in {1, 2} } \cup { Op(f, "clear", 0, 0, 0) }

OpsOf(state, f) ==
    CASE f \in VecFields -> VecOps(f, Len(state[f]))
      [] f \in MapFields -> MapOps(f)
      [] f = "mapN" -> NestedOps
      [] f = "mapV" -> MapVecOps(state.mapV)
      [] f \in SliceFields -> SliceOps(f)

VARIABLES st, store, lastOp, lastA, lastS, aborted
vars == <<st, store, lastOp, lastA, lastS, aborted>>

NoOp == Op("none", "none", 0, 0, 0)
NoRet == [ret |-> RNone, rev |-> FALSE]
Init == st = InitState /\ store = EmptyStore /\ lastOp = NoOp /\ lastA = NoRet /\ lastS = NoRet /\ aborted = FALSE

Step(o) ==
    LET a == ADo(st, o) s == SDo(store, o) IN
    /\ st' = (IF a.rev THEN st ELSE a.st)
    /\ store' = (IF s.rev THEN store ELSE s.s)           \* a revert rolls the transaction back
    /\ lastOp' = o
    /\ lastA' = [ret |-> a.ret, rev |-> a.rev]
    /\ lastS' = [ret |-> s.ret, rev |-> s.rev]
    /\ aborted' = (a.rev \/ s.rev)

Next == ~aborted /\ \E f \in Active : \E o \in OpsOf(st, f) : Step(o)
Spec == Init /\ [][Next]_vars

PairKeys == { <<key, key + 10>> : key \in Keys }
\* reading everything back through the slot layer gives the abstract state
Refines == View(store, Keys, PairKeys) = st
\* returned values agree, and the slot layer reverts exactly when the abstract operation does
RetAgree == lastA = lastS
\* frame: an operation leaves every other field as it was (with Refines: also what is read back from the slots)
FrameStep == \A g \in Fields : g # lastOp'.f => st'[g] = st[g]
\* and inside a keyed field, every other key
KeyFrameStep ==
    /\ lastOp'.f \in MapFields =>
         \A key \in (DOMAIN st[lastOp'.f] \cup DOMAIN st'[lastOp'.f]) \ {MapKey(lastOp'.f, lastOp')} :
             key \in DOMAIN st[lastOp'.f] /\ key \in DOMAIN st'[lastOp'.f] /\ st'[lastOp'.f][key] = st[lastOp'.f][key]
    /\ lastOp'.f = "mapV" => \A key \in Keys \ {lastOp'.a} : VecAt(st'.mapV, key) = VecAt(st.mapV, key)
    /\ lastOp'.f = "mapN" => \A kk \in (Keys \X Keys) \ {<<lastOp'.a, lastOp'.b>>} :
                                (kk \in DOMAIN st.mapN) = (kk \in DOMAIN st'.mapN)
                                /\ (kk \in DOMAIN st.mapN => st'.mapN[kk] = st.mapN[kk])
FrameProp == [][FrameStep /\ KeyFrameStep]_vars

=============================================================================
