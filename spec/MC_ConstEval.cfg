CONSTANT BSel = {1, 2, 3, 4, 5, 6, 7, 8, 9, 10}
CONSTANT ChainSel = {"add-sub", "sub-add", "mul-div", "div-mul"}
CONSTANT F12Fixed = TRUE
CONSTANT B256CmpFixed = TRUE
CONSTANT ClsSel = {"bin", "shift", "not", "widen", "narrow", "chain", "agg", "b256"}
CONSTANT TySel = {"u8", "u16", "u32", "u64", "u256"}
SPECIFICATION Spec
INVARIANT Agreement
INVARIANT NoSubstitution
INVARIANT NoPanic
INVARIANT InRange
INVARIANT FoldSound
INVARIANT PrintReplay
CHECK_DEADLOCK FALSE
