CONSTANT F12Fixed = TRUE
CONSTANT ClsSel = {"bin", "shift", "not", "widen", "narrow", "chain", "b256"}
CONSTANT TySel = {"u8", "u16", "u32", "u64", "u256"}
SPECIFICATION Spec
INVARIANT PrintReplay
CHECK_DEADLOCK FALSE
