-------------------------- MODULE Trace_MatchSem --------------------------
(***************************************************************************)
(* Trace validation for C14.  One record per match expression:             *)
(*   [id, t |-> scrutinee type, M |-> arm patterns,                        *)
(*    c |-> [nonexh  |-> the compiler emitted MatchExpressionNonExhaustive,*)
(*           missing |-> its `missing_patterns` text,                      *)
(*           wsok    |-> that text parsed back into patterns of the type,  *)
(*           ws      |-> the parsed witness patterns,                      *)
(*           flagged |-> arms with a MatchExpressionUnreachableArm warning *)
(*                       (either flavour), 1-based,                        *)
(*           other   |-> any other error reported inside this match (ICE), *)
(*    run |-> the compiled program was executed,                           *)
(*    vals, res |-> values it was run on, and the arm index each returned] *)
(* The record is accepted iff                                              *)
(*   a  nonexh  <=>  ~Exhaustive(M)                                        *)
(*   b  a reported witness list denotes only uncovered values (WitnessOK)  *)
(*   c  flagged  =   { i : ~Reachable(M, i) }                              *)
(*   d  an accepted (exhaustive) match was run on EVERY abstract value and *)
(*      returned Arm(M, v) each time                                       *)
(*   e  no other error (internal compiler error, panic) came out of it     *)
(* Every record is judged; rejected ones are printed with the clauses that *)
(* failed and the model's verdicts, and the postcondition fails.           *)
(***************************************************************************)
EXTENDS MatchSem, Json, IOUtils

Rec == ndJsonDeserialize(IOEnv.TRACE)

VARIABLE l

SeqRange(s) == { s[i] : i \in DOMAIN s }

Judge(r) ==
    LET M == r.M
        t == r.t
        tb == Table(M, t)
        exh == TExh(tb)
        dead == TUnreach(M, tb)
        clean == r.c.other = <<>>
    IN [ a |-> (r.c.nonexh <=> ~exh),
         b |-> ((r.c.nonexh /\ ~exh) => (r.c.wsok /\ WitnessOK(r.c.ws, M, t))),
         c |-> (SeqRange(r.c.flagged) = dead),
         d |-> /\ (exh /\ ~r.c.nonexh /\ clean) => r.run
               /\ r.run => /\ Len(r.res) = Len(r.vals)
                           /\ SeqRange(r.vals) = DOMAIN tb
                           /\ Len(r.vals) = Cardinality(DOMAIN tb)
                           /\ \A j \in DOMAIN r.vals : r.res[j] = TArm(tb, r.vals[j]),
         e |-> clean,
         wf |-> \A i \in DOMAIN M : WF(M[i], t),
         exh |-> exh, unreach |-> dead ]

Ok(j) == j.a /\ j.b /\ j.c /\ j.d /\ j.e /\ j.wf

TraceInit == l = 1 /\ TLCSet(1, 0)

TrStep ==
    /\ l <= Len(Rec)
    /\ LET j == Judge(Rec[l]) IN
       IF Ok(j) THEN TRUE
       ELSE PrintT(<<"REJECT", l, Rec[l].id, ToJson(j)>>) /\ TLCSet(1, TLCGet(1) + 1)
    /\ l' = l + 1

TraceSpec == TraceInit /\ [][TrStep]_l

Accepted == IF TLCGet(1) = 0 THEN TRUE ELSE Print(<<"REJECTED", TLCGet(1)>>, FALSE)
=============================================================================
