"""C25 Dirty-file flags are never lost between processes -- PidLock.tla + vh-pidlock.

1. TLC model-checks PidLock.tla (file-system level model of forc-util/src/fs_locking.rs, one action per
   fs call = per H6 step point) exhaustively on small configurations.  The model is the Impl-reading:
   it transcribes the protocol with its defects.  Every reachable way of losing a flag is classified by
   the ghost `culprit` (caller chain of the remove/rename/truncate that destroyed the flag + whether the
   destroyer acted on a stale decision) and TLC prints ONE shortest witness behaviour per (key, via).
2. Schedule pool = those witnesses + every behaviour of the smallest configuration (breadth-first with
   a history variable) + fixed-seed `-simulate` behaviours of the larger configurations.
3. vh-pidlock replays each schedule with REAL agent processes (real pids, real `ps`, real files under a
   private HOME) stopped at every step point; a crash is SIGKILL + reap.
4. Trace_PidLock.tla accepts a replay iff every real step is the model's step: same next step point,
   same operation result, same directory content after EVERY step.  A rejected replay is a violation
   (key conformance:...), also on schedules whose outcome is a known finding.
5. Each reachable loss key whose witness was accepted on the real code is reported under
   `destroyedBy=<key>`: KNOWN-FINDING if listed in known_findings.json, VIOLATION otherwise.  A key
   that is no longer reachable prints nothing.
"""
import json, os
from lib.common import *

NPROCS = 3   # Trace_PidLock.cfg: Procs = {1,2,3}; shorter configurations are padded with empty programs

# exhaustive configurations (spec/MC_PidLock_<name>.cfg), all with <= 1 crash and every initial file
MC_QUICK = ["1m1c", "2m", "1m2c", "2r1c", "2m1c_absent"]
MC_THOROUGH = ["1m1c", "2m", "1m2c", "2r1c", "2m1c", "3m"]
# simulation pools: (cfg, tlc seed, number of behaviours)
SIM_QUICK = [("2m1c", 11, 300), ("1m2c", 12, 200), ("3m", 13, 200), ("2r1c", 14, 100)]
SIM_THOROUGH = [("2m1c", 11, 600), ("1m2c", 12, 300), ("3m", 13, 400), ("2r1c", 14, 200)]
QUICK_SIM_SLICE = 400
# every behaviour (all interleavings) of the smallest configurations, breadth-first with a history variable
ALL_QUICK = ["m1c"]
ALL_THOROUGH = ["m1c", "1m1c", "m1c_init"]
ALL_SLICE = {"m1c_init": 1200}   # 9101 behaviours; a fixed slice is replayed (process spawn + `ps` cost ~0.15 s per schedule)


def to_schedule(rec, sid):
    """TLC REPLAY record (projected states) -> schedule: the process whose pc/opi/alive changed in each
    transition, and the step point it was stopped at. Purely mechanical."""
    st = rec["states"]
    steps = []
    for a, b in zip(st, st[1:]):
        n = len(a["pc"])
        ch = [p for p in range(n) if a["pc"][p] != b["pc"][p] or a["opi"][p] != b["opi"][p]
              or a["alive"][p] != b["alive"][p]]
        if len(ch) != 1:
            raise ToolError("cannot attribute a model transition to one process: %s -> %s" % (a, b))
        p = ch[0]
        if a["alive"][p] and not b["alive"][p]:
            steps.append([p + 1, "crash"])
        else:
            steps.append([p + 1, a["pc"][p]])
    progs = list(rec["cfg"]["progs"])
    while len(progs) < NPROCS:
        progs.append([])
    return {"id": sid, "kind": rec["kind"], "key": rec.get("key", ""), "via": rec.get("via", ""),
            "cfg": {"progs": progs, "init": rec["cfg"]["init"], "atomic": rec["cfg"]["atomic"]},
            "steps": steps,
            # the model's expectation after every step (documentation for replay files; the judgement
            # is Trace_PidLock's)
            "expect": [{"fs": s["fs"], "res": s["res"], "holds": s["holds"], "alive": s["alive"]} for s in st[1:]]}


def split_runs(trace):
    """trace records -> list of (start_index, records) per schedule (each starts with a reset)."""
    runs = []
    for i, r in enumerate(trace):
        if r["ev"] == "reset":
            runs.append([i, []])
        runs[-1][1].append(r)
    return runs


MAX_REJECTIONS = 8   # each rejection costs one TLC start; a tree that far off is reported, not fully enumerated


def validate(ctx, trace, cfg, name):
    """Trace validation; returns (accepted schedule ids, [(schedule id, record index in schedule, record)]).
    After a rejection the rest of that schedule is skipped and validation continues with the next one."""
    runs = split_runs(trace)
    accepted, rejected = [], []
    pos = 0  # index into runs
    rnd = 0
    while pos < len(runs) and len(rejected) < MAX_REJECTIONS:
        chunk = [r for _, recs in runs[pos:] for r in recs]
        tp = os.path.join(ctx.work, "%s-%d.ndjson" % (name, rnd))
        write_ndjson(tp, chunk)
        tr = ctx.tlc_trace("Trace_PidLock", cfg, tp, name="%s-%d" % (name, rnd), count=False)
        rnd += 1
        if tr.violated is None:
            accepted += [recs[0]["id"] for _, recs in runs[pos:]]
            break
        k = tr.first_unmatched()
        if tr.violated != "postcondition" or k is None:
            raise ToolError("trace validation failed unexpectedly (%s); see work/C25/tlc-%s-%d.out" % (tr.violated, name, rnd - 1))
        # locate the schedule containing chunk record k (1-based)
        off = 0
        for j in range(pos, len(runs)):
            n = len(runs[j][1])
            if k <= off + n:
                rejected.append((runs[j][1][0]["id"], k - off - 1, runs[j][1][k - off - 1]))
                accepted += [recs[0]["id"] for _, recs in runs[pos:j]]
                pos = j + 1
                break
            off += n
        else:
            raise ToolError("FIRST-UNMATCHED index %d out of range" % k)
    return accepted, rejected


def run(ctx):
    quick = ctx.quick
    # Demonstration mode (notes/C25.md): C25_PROTOCOL=asWritten checks the protocol as written at the pinned
    # commit (lock() creates the flag in place) -- meaningful only against a build of a tree without the fix.
    as_written_mode = os.environ.get("C25_PROTOCOL") == "asWritten"
    trace_cfg = "Trace_PidLock_asWritten" if as_written_mode else "Trace_PidLock"
    # ------------------------------------------------------------ 1. exhaustive model checking + classification
    witnesses = []     # REPLAY records kind=loss
    cov = {}
    per_cfg = {}
    mcs = ["asWritten_1m2c"] if as_written_mode else (MC_QUICK if quick else MC_THOROUGH)
    for c in mcs:
        r = ctx.tlc("MC_PidLock", "MC_PidLock_" + c, workers=1, coverage=(c in ("1m2c", "2m", "asWritten_1m2c")),
                    timeout=3000, xmx="6g")
        if r.violated:
            # TypeOK / CulpritRecorded are sanity conditions of the model itself
            raise ToolError("PidLock.tla violates its own sanity invariant %s in MC_PidLock_%s" % (r.violated, c))
        recs = r.printed("REPLAY")
        per_cfg[c] = {"distinct": r.distinct, "generated": r.generated, "depth": r.depth,
                      "keys": sorted(set("%s via %s" % (x["key"], x["via"]) for x in recs))}
        for x in recs:
            x["mc"] = c
        witnesses += recs
        for a, v in r.coverage_actions().items():
            cov[a] = [cov.get(a, [0, 0])[0] + v[0], cov.get(a, [0, 0])[1] + v[1]]
    never = [a for a in ("Begin", "CleanupOpen", "CleanupRead", "CleanupPs", "CleanupRemove", "PidOpen", "PidRead",
                         "PidPs", "PidRemove", "ReleaseRemove", "LockCreate", "LockWrite", "LockRename", "Crash")
             if cov.get(a, [0, 0])[1] == 0 and not (as_written_mode and a == "LockRename")]
    if never:
        raise ToolError("vacuous model: actions never taken: %s" % never)

    # ------------------------------------------------------------ 2. schedule pool
    scheds = []
    for i, w in enumerate(witnesses):
        scheds.append(to_schedule(w, "w%02d-%s" % (i, w["mc"])))
    allrecs = []
    all_pool = {}
    for c in ([] if as_written_mode else ALL_QUICK if quick else ALL_THOROUGH):
        allb = ctx.tlc("MC_PidLockAll", "All_PidLock_" + c, workers=1, count=False, timeout=3000, xmx="6g")
        recs = list(enumerate(allb.printed("REPLAY")))
        all_pool[c] = len(recs)
        if c in ALL_SLICE:
            recs = slice_for_seed(recs, 0, ALL_SLICE[c])
        for i, x in recs:
            allrecs.append(x)
            scheds.append(to_schedule(x, "a-%s-%04d" % (c, i)))
    sims = []
    for (c, seed, num) in ([] if as_written_mode else SIM_QUICK if quick else SIM_THOROUGH):
        s = ctx.tlc("MC_PidLock", "Sim_PidLock_" + c, workers=1, simulate=num, depth=120, tlc_seed=seed,
                    count=False, name="Sim_" + c)
        rs = s.printed("REPLAY")
        for i, x in enumerate(rs):
            sims.append(to_schedule(x, "s-%s-%03d" % (c, i)))
    sim_pool = len(sims)
    if quick:
        sims = slice_for_seed(sims, ctx.seed, QUICK_SIM_SLICE)
    scheds += sims
    inp = os.path.join(ctx.work, "schedules.ndjson")
    write_ndjson(inp, scheds)
    by_id = {s["id"]: s for s in scheds}

    # ------------------------------------------------------------ 3. real processes
    outp = os.path.join(ctx.work, "trace.ndjson")
    home = os.path.join(ctx.work, "homes")
    ctx.vh("vh-pidlock", ["run", "--in", inp, "--out", outp, "--work", home, "--jobs", 4], env={"HOME": home})
    trace = read_ndjson(outp)
    real = {recs[0]["id"]: recs for _, recs in split_runs(trace)}

    # ------------------------------------------------------------ 4. trace validation (TLA+ decides)
    accepted, rejected = validate(ctx, trace, trace_cfg, "trace")
    acc = set(accepted)
    for sid, k, rec in rejected:
        s = by_id[sid]
        at = s["steps"][k - 1] if 0 < k <= len(s["steps"]) else None
        ctx.report("conformance:%s:step%d:%s" % (sid, k, json.dumps(at)),
                   "real processes do not follow PidLock.tla at step %d %s of schedule %s: observed %s"
                   % (k, at, sid, json.dumps(rec)),
                   {"schedule": s, "real": real.get(sid), "unmatched_record_index": k})
    steps_validated = sum(len(real[i]) - 1 for i in acc)
    results = {}   # what the real operations returned, over all accepted replays
    for i in acc:
        for r in real[i]:
            if r["ev"] == "step" and r["next"] == "done":
                k = "%s:%s" % (r.get("op", "?"), r["res"])
                results[k] = results.get(k, 0) + 1
    crashes = sum(1 for i in acc for r in real[i] if r["ev"] == "crash")
    stale_w = [s for s in scheds if s["kind"] == "stale-cleared"]
    if not as_written_mode and not any(s["id"] in acc for s in stale_w):
        if not rejected:
            raise ToolError("anti-vacuity: no behaviour in which a dead owner's flag is cleared by a later check was found and replayed")

    # ------------------------------------------------------------ 5. classified losses
    bykey = {}
    for s in scheds:
        if s["kind"] == "loss":
            bykey.setdefault(s["key"], []).append(s)
    loss_summary = {}
    for key in sorted(bykey):
        ws = sorted(bykey[key], key=lambda s: (len(s["steps"]), s["id"]))
        confirmed = [s for s in ws if s["id"] in acc]
        unseen = [s for s in scheds if s["kind"] == "unseen" and s["key"] == key]
        loss_summary[key] = {"vias": sorted(set(s["via"] for s in ws)), "witnesses": len(ws),
                             "confirmed_on_real_code": len(confirmed),
                             "complete_check_answers_clean_while_owner_holds": {
                                 "witnesses": len(unseen), "confirmed_on_real_code": sum(1 for s in unseen if s["id"] in acc)}}
        if not confirmed:
            continue   # the real code did not follow the witness: already reported as conformance violation
        s = confirmed[0]
        if key == "stale-flag-not-cleared":
            what = ("a complete is_file_dirty with no marker engaged says dirty / leaves the flag file "
                    "(schedule %s, confirmed on the real code)" % s["id"])
        else:
            what = ("flag of a live owner destroyed by %s (via %s); shortest witness %s: %s; the real processes "
                    "followed the model step by step and the real directory shows the loss"
                    % (key, ",".join(loss_summary[key]["vias"]), s["id"], json.dumps(s["steps"])))
        ctx.report("destroyedBy=" + key, what, {"schedule": s, "real": real.get(s["id"])})

    # ------------------------------------------------------------ 6. binding self-test: corrupt one observation
    selftest = None
    good = [i for i in accepted if len(real[i]) > 4]
    if good:
        recs = [dict(r) for r in real[good[0]]]
        j = next((n for n, r in enumerate(recs) if r["ev"] == "step" and r["fs"]["flag"] > 0), len(recs) - 1)
        fs = dict(recs[j]["fs"])
        fs["flag"] = -2 if fs["flag"] != -2 else 0
        recs[j] = dict(recs[j], fs=fs)
        a2, r2 = validate(ctx, recs, trace_cfg, "selftest")
        if not r2 or r2[0][1] != j:
            raise ToolError("binding self-test failed: a corrupted observation at record %d was not rejected there (%s)"
                            % (j, r2))
        selftest = {"schedule": good[0], "corrupted_record": j, "rejected_at": r2[0][1]}

    # ------------------------------------------------------------ 7. thorough: the classifier sees F9 on the protocol as written
    as_written = None
    if not quick and not as_written_mode:
        r = ctx.tlc("MC_PidLock", "MC_PidLock_asWritten_1m2c", workers=1, count=False)
        if r.violated:
            raise ToolError("as-written model violates sanity invariant %s" % r.violated)
        recs = r.printed("REPLAY")
        keys = sorted(set(x["key"] for x in recs if x["kind"] == "loss"))
        f9 = [x for x in recs if x["key"] == "cleanup_stale_files>remove_file/same"]
        if not f9:
            raise ToolError("anti-vacuity: the as-written protocol no longer exhibits F9 in the model")
        # the F9 witness replayed on today's (repaired) code must NOT be a behaviour of the as-written protocol
        s9 = to_schedule(f9[0], "f9-asWritten")
        p9 = os.path.join(ctx.work, "f9.ndjson")
        write_ndjson(p9, [s9])
        o9 = os.path.join(ctx.work, "f9-trace.ndjson")
        ctx.vh("vh-pidlock", ["run", "--in", p9, "--out", o9, "--work", home, "--jobs", 1], env={"HOME": home})
        a9, r9 = validate(ctx, read_ndjson(o9), "Trace_PidLock_asWritten", "f9")
        as_written = {"keys": keys, "distinct": r.distinct,
                      "f9_schedule": s9["steps"],
                      "f9_witness_followed_by_current_code": bool(a9),
                      "current_code_leaves_as_written_protocol_at_record": (r9[0][1] if r9 else None)}

    samples = []
    for i in accepted[:1] + accepted[-1:]:
        samples.append({"schedule": by_id[i]["steps"], "cfg": by_id[i]["cfg"], "real": real[i][:3] + real[i][-2:]})
    return ctx.finish("model_checking", {
        "traces_validated_against_impl": len(accepted),
        "steps_validated_against_impl": steps_validated,
        "schedules_replayed": len(scheds), "schedules_rejected": len(rejected),
        "real_operation_results": results, "real_crashes": crashes,
        "stale_cleared_witnesses_replayed": len([s for s in stale_w if s["id"] in acc]),
        "schedules": {"model_witnesses": len(witnesses), "all_behaviours_small_configs": len(allrecs), "all_behaviours_pool": all_pool,
                      "simulated": len(sims), "simulation_pool": sim_pool},
        "exhaustive": True,
        "configurations": per_cfg,
        "loss_keys": loss_summary,
        "constants": {"MaxCrashes": 1, "InitFiles": ["absent", "empty", "garbage", "ghost"], "AtomicPublish": not as_written_mode},
        "action_coverage": cov,
        "binding_selftest": selftest,
        "as_written_protocol": as_written,
        "samples": samples,
    }, assumptions=[
        "one flag file; cleanup_stale_files over several flag files is not modelled (read_dir order is the file system's)",
        "a file-system call is atomic; write_all(pid) is one write; `ps -p` is instantaneous and exact (no pid reuse)",
        "<= 1 crash, <= 3 processes, each marker runs mark;release (one configuration: two rounds)",
        "only crashes of markers are modelled: a checker's pid is never read, its crash equals never scheduling it again",
        "real replays are step-controlled (one process runs between two step points); free-running races are not sampled",
    ])


def replay(path):
    v = json.load(open(path))
    print(json.dumps({k: v[k] for k in ("property", "key", "what")}, indent=1))
    rp = v.get("replay", {})
    s = rp.get("schedule")
    if not s:
        print(json.dumps(rp, indent=1))
        return 0
    ctx = Ctx("C25-replay", "replay", 0)
    inp = os.path.join(ctx.work, "replay.ndjson")
    write_ndjson(inp, [s])
    outp = os.path.join(ctx.work, "replay-trace.ndjson")
    home = os.path.join(ctx.work, "homes")
    ctx.vh("vh-pidlock", ["run", "--in", inp, "--out", outp, "--work", home, "--jobs", 1], env={"HOME": home})
    tr = read_ndjson(outp)
    print("step | model expects after the step | real processes")
    for i, r in enumerate(tr[1:]):
        e = s["expect"][i] if i < len(s["expect"]) else None
        print("%2d %-22s | model fs=%s res=%s | real %s" % (
            i + 1, json.dumps(s["steps"][i]) if i < len(s["steps"]) else "?",
            json.dumps(e["fs"]) if e else "?", json.dumps(e["res"]) if e else "?",
            json.dumps({k: r.get(k) for k in ("ev", "p", "pt", "next", "res", "fs", "want", "at") if k in r})))
    a, rj = validate(ctx, tr, "Trace_PidLock", "replay")
    print("Trace_PidLock: %s" % ("accepted: the real code follows the model on this schedule" if a else
                                  "REJECTED at record %d: %s" % (rj[0][1], json.dumps(rj[0][2]))))
    return 0
