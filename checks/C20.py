"""C20 Forc.lock round-trips the resolved package graph — LockFile.tla + vh-lock.

1. TLC model-checks the round-trip theorem of LockFile.tla (FromLock(ToLock(g)) = g for every graph
   that satisfies the named provisos) on every graph of the small pools (families core / wide / adv),
   prints one witness per proviso (a graph breaking only that proviso that does NOT round-trip) and
   a second configuration must FAIL without the provisos (anti-vacuity).
2. The same TLC runs print the graphs (plus a fixed-seed family of 4..8-node graphs) as replay records.
3. vh-lock builds the real forc_pkg::Graph, Lock::from_graph -> toml::to_string_pretty ->
   toml::from_str -> Lock::to_graph, and projects graph, lock and result to JSON.
4. Trace_LockFile.tla replays every record: the real lock must equal ToLock(g), the real result must
   equal FromLock(lock), and the result must be g itself unless g breaks a named proviso.  Provisos
   named "M-..." (graphs forc can resolve) are reported as findings, keyed by the proviso.
"""
import concurrent.futures, hashlib, json, os
from lib.common import *

UTF8 = {"JAVA_TOOL_OPTIONS": "-Dfile.encoding=UTF-8 -Dstdout.encoding=UTF-8"}
SHARD = 1500          # records per Trace_LockFile run
PAR = 4               # concurrent trace validations (1 TLC worker each)
MAX_REJECT = 12       # per shard, then the shard is given up (reported)

# every proviso of the theorem must have a witness in the adv / core families
EXPECTED_WITNESSES = {
    "D-package-name", "D-git-commit-hash", "D-registry-namespace-empty", "D-parallel-edges",
    "M-git-url-question-mark", "M-registry-namespace-separator", "M-registry-cid-not-v0",
    "M-disambiguated-source-parenthesis", "M-dep-name-parenthesis",
}
WHAT = {
    "M-git-url-question-mark": "a git dependency whose URL contains '?' is written to Forc.lock as "
        "git+<url>?<ref>#<commit> and split at the first '?' when read: the entry is rejected",
    "M-registry-namespace-separator": "a registry namespace containing '!' or '#' (or ending in white "
        "space) is truncated when the registry+...!<namespace> source string is read back",
    "M-registry-cid-not-v0": "a registry package pinned to a CID that is not a 46-character Qm... CIDv0 "
        "is written to Forc.lock but rejected by reg::Pinned::from_str (validate_cid) when read",
    "M-disambiguated-source-parenthesis": "two packages with one name force '<name> <source>' dependency "
        "lines; a '(' inside the source string (branch f(x), namespace n(s)) is taken as the salt",
    "M-dep-name-parenthesis": "a dependency renamed to a name containing ')' is written as "
        "'(<dep>) <pkg>' and cut at the first ')' when read",
}


def validate(ctx, records, tag):
    """Trace-validate records with Trace_LockFile.tla in parallel shards.
    Returns (accepted, provisos, rejected) where provisos are the PROVISO prints and rejected the
    records at which a trace was rejected (validation resumes after each)."""
    shards = [records[i:i + SHARD] for i in range(0, len(records), SHARD)]

    def work(si):
        chunk = shards[si]
        accepted, prov, rej, attempt = 0, [], [], 0
        while chunk:
            tp = os.path.join(ctx.work, "trace-%s-%d.ndjson" % (tag, si))
            write_ndjson(tp, chunk)
            tr = ctx.tlc_trace("Trace_LockFile", "Trace_LockFile", tp, env=UTF8,
                               name="trace-%s-%d-%d" % (tag, si, attempt))
            prov += tr.printed("PROVISO")
            if tr.violated is None:
                accepted += len(chunk)
                break
            k = tr.first_unmatched()
            if tr.violated != "postcondition" or k is None:
                raise ToolError("trace validation failed unexpectedly (%s); see %s" % (
                    tr.violated, os.path.join(ctx.work, "tlc-trace-%s-%d-%d.out" % (tag, si, attempt))))
            rej.append(chunk[k - 1])
            accepted += k - 1
            chunk = chunk[k:]
            attempt += 1
            if attempt >= MAX_REJECT and chunk:
                rej.append({"ev": "ShardAbandoned", "id": "%s-shard%d" % (tag, si), "not_validated": len(chunk)})
                break
        return accepted, prov, rej

    accepted, prov, rej = 0, [], []
    with concurrent.futures.ThreadPoolExecutor(max_workers=PAR) as ex:
        for a, p, r in ex.map(work, range(len(shards))):
            accepted += a
            prov += p
            rej += r
    return accepted, prov, rej


def must_reject(ctx, rec, name):
    """Binding self-test: a corrupted record must be rejected by Trace_LockFile."""
    tp = os.path.join(ctx.work, "selftest-%s.ndjson" % name)
    write_ndjson(tp, [rec])
    tr = ctx.tlc_trace("Trace_LockFile", "Trace_LockFile", tp, env=UTF8, name="selftest-" + name, count=False)
    if tr.violated != "postcondition":
        raise ToolError("binding self-test %s: corrupted record was NOT rejected by Trace_LockFile" % name)
    return name


def gid(g):
    return hashlib.sha256(json.dumps(g, sort_keys=True).encode()).hexdigest()[:12]


def replay_records(r, prefix):
    """REPLAY records printed by a TLC run; ids are assigned after sorting, so they do not depend on the
    order in which TLC's workers happened to print."""
    recs = sorted(r.printed("REPLAY"), key=lambda x: json.dumps(x, sort_keys=True))
    for i, x in enumerate(recs):
        x["id"] = "%s%d" % (prefix, i)
    return recs


def node_order_variants(rec):
    n = len(rec["nodes"])
    if n < 3:
        return []
    out = []
    for tag, perm in (("rev", list(range(n - 1, -1, -1))), ("rot", [1] + [0] + list(range(2, n))[::-1] if n > 3 else [1, 2, 0])):
        # perm[k] = old index of the node inserted k-th
        new_pos = {old: k for k, old in enumerate(perm)}
        v = dict(rec)
        v["id"] = "%s~%s" % (rec["id"], tag)
        v["nodes"] = [rec["nodes"][old] for old in perm]
        v["edges"] = [dict(e, **{"from": new_pos[e["from"] - 1] + 1, "to": new_pos[e["to"] - 1] + 1}) for e in reversed(rec["edges"])]
        out.append(v)
    return out


def gen(ctx, cfg, prefix, tlc_seed=None):
    r = ctx.tlc("MC_LockFile", cfg, workers=1, env=UTF8, tlc_seed=tlc_seed, count=False, xss="512m")
    return replay_records(r, prefix)


def run(ctx):
    # ------------------------------------------------------------ 1. the theorem, on the model
    # (the model-checking runs of the core / adv families also print their graphs as replay records)
    mcs = []
    cfgs = ["MC_LockFileQuick"] if ctx.quick else ["MC_LockFile", "MC_LockFileWide", "MC_LockFileAdv"]
    witnesses = set()
    cov = {}
    printed = {}
    for cfg in cfgs:
        mc = ctx.tlc("MC_LockFile", cfg, workers=4, env=UTF8, coverage=(cfg == cfgs[0]), xss="512m", timeout=3000)
        mcs.append(mc)
        if mc.violated:
            ctx.report("model:%s:%s" % (cfg, mc.violated),
                       "LockFile.tla violates %s on a small graph (%s)" % (mc.violated, cfg),
                       {"tlc": mc.counterexample()[:6000]})
        for line in mc.out.splitlines():
            if '"WITNESS"' in line:
                for p in EXPECTED_WITNESSES:
                    if p in line:
                        witnesses.add(p)
        if cfg == cfgs[0]:
            cov = mc.coverage_actions()
        printed[cfg] = mc
    for a in ("Write", "Read"):
        if not cov.get(a) or cov[a][1] == 0:
            raise ToolError("anti-vacuity: action %s of LockFile.tla never fired (%s)" % (a, cov))
    missing = (({"D-parallel-edges"} if ctx.quick else EXPECTED_WITNESSES)) - witnesses
    if missing:
        raise ToolError("anti-vacuity: no witness graph for proviso(s) %s" % sorted(missing))
    nop = ctx.tlc("MC_LockFile", "MC_LockFileNoProviso", workers=1, env=UTF8, xss="512m", count=False)
    if nop.violated != "RoundTripAlways":
        raise ToolError("anti-vacuity: the round-trip theorem without provisos was not refuted (%s)" % nop.violated)

    # ------------------------------------------------------------ 2. replay records
    if ctx.quick:
        core = replay_records(printed["MC_LockFileQuick"], "core")
        adv = gen(ctx, "Gen_LockFileAdv", "adv")       # quick: the adv family is decided record by record in step 4
        big = gen(ctx, "Gen_LockFileBigQ", "big", tlc_seed=7)
        sizes = {"core": len(core), "adv_pool": len(adv), "big": len(big)}
        pool = slice_for_seed(core, ctx.seed, 1500) + slice_for_seed(adv, ctx.seed, 3000) + big
    else:
        core = replay_records(printed["MC_LockFile"], "core")
        adv = replay_records(printed["MC_LockFileAdv"], "adv")
        big = gen(ctx, "Gen_LockFileBig", "big", tlc_seed=7)
        sizes = {"core": len(core), "adv": len(adv), "big": len(big)}
        pool = core + adv + big
    if not core or not adv or not big:
        raise ToolError("a replay pool is empty: %s" % sizes)
    # The abstract graph has no node order, a forc_pkg::Graph has one (insertion = fetch order), and the
    # enumerated records list nodes in a canonical order. Every record with >= 3 nodes is therefore also
    # replayed with its nodes (and edges) inserted in two other orders; the abstract graph -- and with it
    # the expectation ToLock(g) / FromLock -- is the same.
    pool = pool + [v for r in pool for v in node_order_variants(r)]
    sizes["with_node_order_variants"] = len(pool)
    inp = os.path.join(ctx.work, "graphs.ndjson")
    write_ndjson(inp, pool)

    # ------------------------------------------------------------ 3. the real code
    outp = os.path.join(ctx.work, "roundtrips.ndjson")
    ctx.vh("vh-lock", ["--mode", "roundtrip", "--in", inp, "--out", outp])
    results = read_ndjson(outp)
    bad = [r for r in results if r["ev"] != "RoundTrip"]
    if bad:
        raise ToolError("vh-lock could not build %d generated graphs, e.g. %s" % (len(bad), bad[0]))
    tomls = {}
    for r in results:                       # the TOML text is not part of the abstract trace
        tomls[r["id"]] = r.pop("toml", "")

    # ------------------------------------------------------------ 4. trace validation
    accepted, prov, rej = validate(ctx, results, "rt")
    for r in rej:
        if r["ev"] == "ShardAbandoned":
            ctx.report("abandoned:" + r["id"], "more than %d rejected records in one shard; %d records not validated"
                       % (MAX_REJECT, r["not_validated"]), r)
            continue
        r = dict(r, toml=tomls.get(r["id"], ""))
        if r["out"]["k"] == "panic":
            ctx.report("panic:%s:%s" % (r["out"].get("stage"), r["out"].get("msg", "")[:80]),
                       "writing/reading Forc.lock panicked: %s" % r["out"].get("msg"), r)
        else:
            ctx.report("roundtrip:" + gid(r["g"]),
                       "Forc.lock round trip: the real lock or the graph read back (%s) is not what LockFile.tla "
                       "allows for this graph" % r["out"]["k"], r)
    byid = {r["id"]: r for r in results}
    mech = {}
    proviso_records = 0
    for p in prov:
        proviso_records += 1
        # a finding is a graph that breaks exactly one proviso, an "M-" one, and does not come back
        if len(p["provisos"]) == 1 and p["provisos"][0].startswith("M-"):
            mech.setdefault(p["provisos"][0], []).append(p["id"])
    for m in sorted(mech):
        ex = byid[mech[m][0]]
        ctx.report("proviso:" + m, "%s (%d graphs of the pool; first: %s)" % (WHAT.get(m, m), len(mech[m]), mech[m][0]),
                   dict(ex, toml=tomls.get(ex["id"], ""), proviso=m))

    # ------------------------------------------------------------ 5. binding self-test
    selftests = []
    provids = {p["id"] for p in prov}
    rejids = {r["id"] for r in rej}
    good = [r for r in results if r["out"]["k"] == "graph" and r["id"] not in provids and r["id"] not in rejids
            and any(e["kind"] == "contract" and e["salt"].endswith("1") for e in r["out"]["edges"])]
    if good:
        base = good[0]
        c1 = json.loads(json.dumps(base))
        for e in c1["out"]["edges"]:
            if e["kind"] == "contract" and e["salt"].endswith("1"):
                e["salt"] = e["salt"][:-1] + "2"
                break
        c2 = json.loads(json.dumps(base))
        c2["lock"][0]["source"] += "x"
        c3 = json.loads(json.dumps(base))
        c3["out"] = {"k": "panic", "stage": "read", "msg": "injected"}
        c4 = json.loads(json.dumps(base))
        c4["out"]["edges"][0]["dep"] += "_"
        with concurrent.futures.ThreadPoolExecutor(max_workers=PAR) as ex:
            selftests = list(ex.map(lambda a: must_reject(ctx, a[0], a[1]),
                                    [(c1, "salt"), (c2, "lock-source"), (c3, "panic"), (c4, "dep-name")]))
    elif not ctx.quick:
        raise ToolError("no record suitable for the binding self-test")

    held = accepted - proviso_records
    samples = [dict(r, toml=tomls.get(r["id"], "")) for r in (good[:1] + results[:1] + results[-1:])]
    return ctx.finish("model_checking", {
        "traces_validated_against_impl": accepted,
        "exhaustive": True,
        "graphs_model_checked": {c: mc.distinct // 3 for c, mc in zip(cfgs, mcs)},
        "pool_sizes": sizes,
        "graphs_replayed": len(results),
        "roundtrip_held": held,
        "roundtrip_failed_under_named_proviso": proviso_records,
        "rejected_records": len(rej),
        "provisos_witnessed": sorted(witnesses),
        "finding_provisos_hit": {m: len(v) for m, v in mech.items()},
        "no_proviso_config_refuted": True,
        "binding_selftests_rejected": selftests,
        "action_coverage": cov,
        "constants": {"tlc_seed_big": 7, "shard": SHARD},
        "samples": samples,
    }, assumptions=[
        "graphs are built directly as forc_pkg::Graph values (manifest loading / fetching is not involved); the provisos "
        "named D-... are properties forc establishes elsewhere (validate_project_name, update_edge in fetch_deps, git2 "
        "object ids, empty namespace mapped to Flat) and are not alarmed on",
        "URL, semver and CID sub-parsers (gix_url, semver, cid) are opaque: pool strings are ones they print back unchanged",
        "nodes are a set of (name, pinned source): two graph nodes with identical name and pinned source are not modelled",
        "generated graphs are ASCII-only (TLC's state queue does not preserve non-ASCII strings in state variables)",
        "exhaustive for the stated pools (<= 3 nodes, <= 2 edges; adversarial pairs); 4..8-node graphs are a fixed-seed pool",
    ])


def replay(path):
    v = json.load(open(path))
    print(json.dumps({k: v[k] for k in ("property", "key", "what")}, indent=1))
    r = v.get("replay", {})
    if "g" not in r:
        print(json.dumps(r, indent=1)[:6000])
        return 0
    ctx = Ctx("C20replay", "quick", 0)
    rec = {"id": r.get("id", "replay"), "nodes": r["g"]["nodes"], "edges": r["g"]["edges"]}
    inp = os.path.join(ctx.work, "in.ndjson")
    outp = os.path.join(ctx.work, "out.ndjson")
    write_ndjson(inp, [rec])
    ctx.vh("vh-lock", ["--mode", "roundtrip", "--in", inp, "--out", outp])
    res = read_ndjson(outp)[0]
    print("--- graph given to the real code:\n" + json.dumps(res.get("g"), indent=1))
    print("--- Forc.lock written by the real code:\n" + res.get("toml", ""))
    print("--- read back by the real code:\n" + json.dumps(res.get("out"), indent=1))
    res.pop("toml", None)
    write_ndjson(inp, [res])
    tr = ctx.tlc_trace("Trace_LockFile", "Trace_LockFile", inp, env=UTF8, name="replay", count=False)
    prov = tr.printed("PROVISO")
    if tr.violated is None and not prov:
        print("--- LockFile.tla: accepted (the graph round-trips as specified)")
        return 0
    if tr.violated is None:
        print("--- LockFile.tla: does not round-trip; the graph breaks proviso(s) %s" % prov[0]["provisos"])
        return 1
    print("--- LockFile.tla: REJECTED (lock or result differs from ToLock/FromLock, or a well-formed graph was not read back)")
    return 1
