"""C01 Compiled scripts compute what the Sway semantics prescribe.

SwaySem.tla (big-step semantics over IntSem/Bytes) is the oracle: for every generated program of the
deterministic pool, built by forc in debug and in release and run on the FuelVM, Trace_SwaySem.tla
recomputes Run(ast) and must equal the receipts (logs as canonical bytes, return / revert code).
"""
import json
from lib.common import *
from lib import semcheck
from lib.passes import DEBUG, RELEASE

POOL = list(range(1, 241))          # generator seeds; each = one package of 12 test entry points
MAIN_POOL = list(range(2001, 2121))  # one script per seed whose `main` returns a value (script-level return path)
CONFIGS = [{"name": "debug", "profile": "debug"}, {"name": "release", "profile": "release"}]


def run(ctx):
    seeds = slice_for_seed(POOL, ctx.seed, 16) if ctx.quick else POOL
    # the semantics' own self-check (Bytes against native integers)
    sc = ctx.tlc("MC_Bytes", "MC_Bytes", workers=1)
    if sc.violated:
        raise ToolError("Bytes.tla self-check failed")
    pkgs = [semcheck.gen_package(s) for s in seeds] + semcheck.probe_packages()
    obs, failures, _ = semcheck.run_configs(ctx, pkgs, CONFIGS, procs=8)
    semcheck.report_failures(ctx, failures)
    validated, rej = semcheck.validate(ctx, pkgs, obs)
    semcheck.report_rejections(ctx, rej, pkgs)
    # script-level path: `main`'s encoded return value through the script's own receipts
    mseeds = slice_for_seed(MAIN_POOL, ctx.seed, 10) if ctx.quick else MAIN_POOL
    mpk = [semcheck.gen_main_package(s) for s in mseeds]
    mobs, mfail = semcheck.run_main_configs(ctx, mpk, CONFIGS, procs=8)
    semcheck.report_failures(ctx, mfail)
    mval, mrej = semcheck.validate(ctx, mpk, mobs)
    semcheck.report_rejections(ctx, mrej, mpk)
    validated += mval
    failures = failures + mfail
    ntests = sum(len(p["tests"]) for p in pkgs)
    reverts = sum(1 for pk in obs.values() for o in pk.values() if o and o[0]["out"] == "revert")
    sample_p = pkgs[0]
    return ctx.finish("model_checking", {
        "traces_validated_against_impl": validated,
        "programs": len(pkgs), "test_entry_points": ntests, "scripts_run_through_main": len(mpk), "configurations": [c["name"] for c in CONFIGS],
        "observations": sum(len(o) for pk in obs.values() for o in pk.values()),
        "distinct_nontrivial_cases": semcheck.nontrivial_count(obs), "cases_that_revert": reverts,
        "build_or_run_failures": len(failures),
        "pool": {"generator_seeds": "1..240", "slice": seeds if ctx.quick else "all", "cases_per_package": semcheck.NCASE},
        "samples": [{"seed": sample_p["seed"], "test": sample_p["tests"][0]["name"],
                     "source": semcheck.Renderer(sample_p["prog"]).block(sample_p["tests"][0]["body"])[:1500],
                     "observed": obs[sample_p["id"]][sample_p["tests"][0]["name"]]}],
    }, assumptions=[
        "SwaySem.tla is the reading of the language semantics for the Sway-mini fragment (ints u8..u256, bool, b256, tuples, structs, enums, arrays, if/while/match/break/continue, generic and non-generic calls); facts pinned on the VM are listed in DESIGN.md Appendix C",
        "possibly-trapping arithmetic is generated only where its result is used at once (the optimizer deliberately removes dead trapping arithmetic: known language-level latitude, probed separately)",
        "dynamic out-of-range array indexing is not generated (finding F15)",
        "the pool is finite and deterministic; VERIF_SEED selects the quick slice",
    ])


def replay(path):
    v = json.load(open(path))
    print(json.dumps(v, indent=1)[:6000])
    return 0
