"""C14 Match exhaustiveness and reachability are exact -- MatchSem.tla + vh-match + vh-exec.

1. TLC (MC_MatchSem) enumerates pattern matrices pool by pool (exhaustive pools over small pattern
   sets; fixed-seed random chunks over the full depth-2 pattern language), checks the model-level
   facts on each (region lemma over u8 = 0..255, Maranget's reduction, agreement with
   SwaySem.Match, table shortcuts = definitions) and prints one REPLAY record per matrix.
2. Every matrix is rendered as `fn m_k(s: T) -> u64 { match s { p1 => 1, ... } }`, one arm per
   line; vh-match type-checks ~500 of them per package (forc_pkg::check, no codegen) and returns
   the MatchExpressionNonExhaustive errors / MatchExpressionUnreachableArm warnings with their
   line numbers (one non-exhaustive match does not hide the diagnostics of the others).
3. The `missing_patterns` text is parsed back (type-directed, mechanical) into the pattern AST.
4. Matrices the compiler accepted are compiled for real and run on the FuelVM (vh-exec), one
   #[test] per matrix calling m_k on every abstract value and logging the arm index returned.
5. Trace_MatchSem.tla judges every record (clauses a-e); rejected records are reported.
All judgements are made by the TLA+ modules; this file renders, parses, batches.
"""
import json, os, re, hashlib, time
from concurrent.futures import ThreadPoolExecutor
from lib.common import *
from lib.swayexec import run_packages

SEED0 = 14000
# exhaustive pools and the number of pieces each is generated in (<= ~500 matrices per piece)
EXH_POOLS = [("x_bool", 6), ("x_u8", 1), ("x_u8s", 1), ("x_Ea", 4), ("x_bb", 4), ("x_bu", 6), ("x_eb", 2), ("x_Sa", 3),
             ("x_Eb", 1), ("x_Ec", 3), ("x_bbb", 2), ("x_Sb", 1)]
FULL_LEMMA = {"x_u8.0", "x_u8s.0", "x_Ea.0", "x_bu.0", "x_eb.0", "x_Sa.0", "x_Ec.0", "x_Sb.0"}
RND_TYPES = ["u8", "Ea", "Eb", "Ec", "Sa", "Sb", "bb", "bu", "eb", "bbb", "uu", "es", "tbb"]
NRAND = 200          # random matrices per chunk
CHUNKS = 3           # chunks per type
FRONT_BATCH = 500    # matrices per vh-match package
EXEC_BATCH = 100     # matrices per vh-exec package
VARIANTS = "ABC"
FIELDS = "fgh"


# ------------------------------------------------------------------ pools
def all_units():
    """The whole (finite, deterministic) pool as generation units
    (name, Sel, NRand, SliceK, SliceR, tlc seed); one TLC run each."""
    units = []
    for p, k in EXH_POOLS:
        for r in range(k):
            units.append(("%s.%d" % (p, r), p, 1, k, r, SEED0))
    for ti, ty in enumerate(RND_TYPES):
        for c in range(CHUNKS):
            units.append(("r_%s.%d" % (ty, c), "r_" + ty, NRAND, 1, 0, SEED0 + 100 * (ti + 1) + c))
    return units


def gen_unit(ctx, unit):
    name, sel, nrand, k, r, seed = unit
    # RegionLemma over the full value space (u8 = 0..255) costs ~0.5 s per matrix: checked on the first piece
    # of every exhaustive pool whose type has a u8 leaf; the leaf-level AtomRegionLemma is checked everywhere
    full_lemma = name in FULL_LEMMA
    cfg = os.path.join(ctx.work, "MC_%s.cfg" % name)
    with open(cfg, "w") as f:
        f.write('CONSTANT Sel = {"%s"}\nCONSTANT NRand = %d\nCONSTANT SliceK = %d\nCONSTANT SliceR = %d\n'
                'CONSTANT FullLemma = %s\n'
                'SPECIFICATION Spec\nINVARIANT WellFormed\nINVARIANT Facts\nINVARIANT Lemma\n'
                'INVARIANT PrintReplay\nCHECK_DEADLOCK FALSE\n' % (sel, nrand, k, r, "TRUE" if full_lemma else "FALSE"))
    res = ctx.tlc("MC_MatchSem", cfg, workers=1, tlc_seed=seed, xss="1g", name="gen-" + name, timeout=3000)
    recs = res.printed("REPLAY")
    if res.violated:
        ctx.report("model:%s:%s" % (name, res.violated),
                   "MatchSem.tla violates its own fact %s on pool %s" % (res.violated, name),
                   {"tlc": res.counterexample()[:6000]})
    elif len(recs) != res.distinct:
        raise ToolError("pool %s: %d replay records for %d matrices" % (name, len(recs), res.distinct))
    for i, x in enumerate(recs):
        x["id"] = "%s#%d" % (name, i)
    return recs


# ------------------------------------------------------------------ rendering
def r_type(t):
    k = t["k"]
    if k in ("bool", "u8"):
        return k
    if k == "unit":
        return "()"
    if k == "tuple":
        return "(" + ", ".join(r_type(x) for x in t["ts"]) + ")"
    return t["name"]


def collect_decls(t, acc):
    k = t["k"]
    if k in ("tuple", "struct", "enum"):
        for x in t["ts"]:
            collect_decls(x, acc)
    if k == "struct" and t["name"] not in acc:
        acc[t["name"]] = "struct %s { %s }" % (t["name"], ", ".join(
            "%s: %s" % (FIELDS[i], r_type(x)) for i, x in enumerate(t["ts"])))
    if k == "enum" and t["name"] not in acc:
        acc[t["name"]] = "enum %s { %s }" % (t["name"], ", ".join(
            "%s: %s" % (VARIANTS[i], r_type(x)) for i, x in enumerate(t["ts"])))


def r_pat(p, t, sfx=False):
    """sfx: u8 literals carry the type suffix (`0u8`)."""
    k = p["k"]
    if k == "wild":
        return "_"
    if k == "bind":
        return p["x"]
    if k == "bool":
        return "true" if p["v"] else "false"
    if k == "lit":
        n = 0
        for b in p["b"]:
            n = n * 256 + b
        return str(n) + ("u8" if sfx else "")
    if k == "tuple":
        return "(" + ", ".join(r_pat(x, tt, sfx) for x, tt in zip(p["ps"], t["ts"])) + ")"
    if k == "or":
        return " | ".join(r_pat(x, t, sfx) for x in p["ps"])
    if k == "variant":
        pt = t["ts"][p["v"]]
        if pt["k"] == "unit":
            return "%s::%s" % (p["name"], VARIANTS[p["v"]])
        return "%s::%s(%s)" % (p["name"], VARIANTS[p["v"]], r_pat(p["p"], pt, sfx))
    if k == "struct":
        parts = []
        for f in p["fs"]:
            fn, sub = FIELDS[f["i"] - 1], f["p"]
            if sub["k"] == "bind" and sub["x"] == fn:
                parts.append(fn)                       # shorthand `S { f }` binds f
            else:
                parts.append("%s: %s" % (fn, r_pat(sub, t["ts"][f["i"] - 1], sfx)))
        if p["rest"]:
            parts.append("..")
        return "%s { %s }" % (p["name"], ", ".join(parts))
    raise ValueError(k)


def r_val(v, t):
    k = t["k"]
    if k == "bool":
        return "true" if v["v"] else "false"
    if k == "u8":
        return "%du8" % v["b"][0]
    if k == "unit":
        return "()"
    if k == "tuple":
        return "(" + ", ".join(r_val(x, tt) for x, tt in zip(v["es"], t["ts"])) + ")"
    if k == "struct":
        return "%s { %s }" % (t["name"], ", ".join(
            "%s: %s" % (FIELDS[i], r_val(x, tt)) for i, (x, tt) in enumerate(zip(v["es"], t["ts"]))))
    if k == "enum":
        pt = t["ts"][v["tag"]]
        if pt["k"] == "unit":
            return "%s::%s" % (t["name"], VARIANTS[v["tag"]])
        return "%s::%s(%s)" % (t["name"], VARIANTS[v["tag"]], r_val(v["v"], pt))
    raise ValueError(k)


def r_arm(rec, p):
    return r_pat(p, rec["t"], rec.get("sfx", False))


def r_matrix(rec):
    return " ; ".join(r_arm(rec, p) for p in rec["M"])


def render_front(recs):
    """One library with a function per matrix; returns (source, {line: (rec index, arm or 0)})."""
    decls = {}
    for r in recs:
        collect_decls(r["t"], decls)
    lines = ["library;"] + [decls[n] for n in sorted(decls)]
    where = {}
    for k, r in enumerate(recs):
        lines.append("fn m_%d(s: %s) -> u64 { match s {" % (k, r_type(r["t"])))
        where[len(lines)] = (k, 0)
        for i, p in enumerate(r["M"]):
            lines.append("%s => %d," % (r_arm(r, p), i + 1))
            where[len(lines)] = (k, i + 1)
        lines.append("} }")
        where[len(lines)] = (k, 0)
    return "\n".join(lines) + "\n", where


def render_exec(recs):
    decls = {}
    for r in recs:
        collect_decls(r["t"], decls)
    lines = ["script;", "fn main() {}"] + [decls[n] for n in sorted(decls)]
    for k, r in enumerate(recs):
        arms = " ".join("%s => %d," % (r_arm(r, p), i + 1) for i, p in enumerate(r["M"]))
        lines.append("fn m_%d(s: %s) -> u64 { match s { %s } }" % (k, r_type(r["t"]), arms))
        calls = " ".join("log(m_%d(%s));" % (k, r_val(v, r["t"])) for v in r["vals"])
        lines.append("#[test] fn t_%d() { %s }" % (k, calls))
    return "\n".join(lines) + "\n"


# ------------------------------------------------------------------ witness text -> pattern AST
class ParseFail(Exception):
    pass


class WParser:
    """Parser for the Display form of analysis/pattern.rs, directed by the scrutinee type."""

    def __init__(self, s):
        self.s, self.i = s, 0

    def peek(self, tok):
        return self.s.startswith(tok, self.i)

    def eat(self, tok):
        if not self.peek(tok):
            raise ParseFail("expected %r at %d in %r" % (tok, self.i, self.s))
        self.i += len(tok)

    def ident(self):
        m = re.compile(r"[A-Za-z_][A-Za-z0-9_]*").match(self.s, self.i)
        if not m:
            raise ParseFail("identifier expected at %d in %r" % (self.i, self.s))
        self.i = m.end()
        return m.group(0)

    def num(self):
        m = re.compile(r"[0-9]+").match(self.s, self.i)
        if not m:
            raise ParseFail("number expected at %d in %r" % (self.i, self.s))
        self.i = m.end()
        return int(m.group(0))

    def pat(self, t):
        alts = [self.alt(t)]
        while self.peek(" | "):
            self.eat(" | ")
            alts.append(self.alt(t))
        return alts[0] if len(alts) == 1 else {"k": "or", "ps": alts}

    def be(self, n):
        out = []
        while True:
            out.insert(0, n & 255)
            n >>= 8
            if n == 0:
                return out

    def alt(self, t):
        k = t["k"]
        if self.peek("_"):
            self.eat("_")
            return {"k": "wild"}
        if k == "bool":
            if self.peek("true"):
                self.eat("true")
                return {"k": "bool", "v": True}
            self.eat("false")
            return {"k": "bool", "v": False}
        if k == "u8":
            if self.peek("["):
                self.eat("[")
                if self.peek("MIN"):
                    self.eat("MIN")
                    lo = 0
                else:
                    lo = self.num()
                self.eat("...")
                if self.peek("MAX"):
                    self.eat("MAX")
                    hi = 255          # MAX of the scrutinee type (the value domain)
                else:
                    hi = self.num()
                self.eat("]")
                return {"k": "range", "t": "u8", "lo": self.be(lo), "hi": self.be(hi)}
            return {"k": "lit", "t": "u8", "b": self.be(self.num())}
        if k == "tuple":
            self.eat("(")
            ps = []
            for j, tt in enumerate(t["ts"]):
                if j:
                    self.eat(", ")
                ps.append(self.pat(tt))
            self.eat(")")
            return {"k": "tuple", "ps": ps}
        if k == "enum":
            name = self.ident()
            if name != t["name"]:
                raise ParseFail("enum %s expected, got %s" % (t["name"], name))
            self.eat("::")
            v = self.ident()
            if v not in VARIANTS[:len(t["ts"])]:
                raise ParseFail("unknown variant " + v)
            vi = VARIANTS.index(v)
            self.eat("(")
            pt = t["ts"][vi]
            sub = self.pat(pt) if pt["k"] != "unit" else self.pat({"k": "unit"})
            self.eat(")")
            return {"k": "variant", "name": name, "v": vi, "p": sub}
        if k == "struct":
            name = self.ident()
            if name != t["name"]:
                raise ParseFail("struct %s expected, got %s" % (t["name"], name))
            self.eat(" { ")
            fs, rest = [], False
            while not self.peek(" }"):
                if fs:
                    self.eat(", ")
                if self.peek("..."):
                    self.eat("...")
                    rest = True
                    break
                fn = self.ident()
                if fn not in FIELDS[:len(t["ts"])]:
                    raise ParseFail("unknown field " + fn)
                self.eat(": ")
                fi = FIELDS.index(fn)
                fs.append({"i": fi + 1, "p": self.pat(t["ts"][fi])})
            self.eat(" }")
            return {"k": "struct", "name": name, "fs": fs, "rest": rest}
        raise ParseFail("no constructor pattern for type %s at %d in %r" % (k, self.i, self.s))


def parse_missing(text, t):
    """`w1`, `w2`, ... -> ([patterns], ok)"""
    parts = re.findall(r"`([^`]*)`", text)
    if not parts or ", ".join("`%s`" % p for p in parts) != text:
        return [], False
    out = []
    try:
        for w in parts:
            p = WParser(w)
            out.append(p.pat(t))
            if p.i != len(w):
                raise ParseFail("trailing text in %r" % w)
    except ParseFail:
        return [], False
    return out, True


# ------------------------------------------------------------------ engines
def run_front(ctx, recs, procs=4):
    """-> {rec id: {"nonexh","missing","flagged","other"}}"""
    ctx.build_vh("vh-match")
    batches = [recs[i:i + FRONT_BATCH] for i in range(0, len(recs), FRONT_BATCH)]
    pk, wheres = [], {}
    for b, batch in enumerate(batches):
        src, where = render_front(batch)
        pid = "mf%d" % b
        pk.append({"id": pid, "files": {"src/main.sw": src}, "std": True})
        wheres[pid] = (batch, where)

    def shard(a):
        si, items = a
        if not items:
            return []
        inp = os.path.join(ctx.work, "front-%d.in.ndjson" % si)
        outp = os.path.join(ctx.work, "front-%d.out.ndjson" % si)
        write_ndjson(inp, items)
        ctx.vh("vh-match", ["--in", inp, "--out", outp, "--work", os.path.join(ctx.work, "fpk-%d" % si)],
               env={"HOME": ctx.work}, timeout=3000)
        return read_ndjson(outp)

    shards = [(i, pk[i::procs]) for i in range(procs)]
    with ThreadPoolExecutor(max_workers=procs) as ex:
        outs = [o for part in ex.map(shard, shards) for o in part]
    res = {}
    for o in outs:
        batch, where = wheres[o["id"]]
        if o.get("err") or not o.get("complete", True):
            raise ToolError("vh-match could not check %s: %s" % (o["id"], o.get("err") or "dependency failed"))
        per = [{"nonexh": False, "missing": "", "flagged": [], "other": []} for _ in batch]
        if o.get("panic"):
            # a panic kills the whole package: bisect to isolate the matrix (or matrices) causing it
            res.update(_front_single(ctx, batch, panicked=o["panic"]))
            continue
        for e in o["errors"]:
            loc = where.get(e["line"])
            if loc is None or not e.get("entry", True):
                raise ToolError("vh-match: diagnostic outside any match: %s" % e)
            k = loc[0]
            if e["k"] == "nonexh":
                if per[k]["nonexh"]:
                    per[k]["other"].append("second non-exhaustive error")
                per[k]["nonexh"] = True
                per[k]["missing"] = e["missing"]
            else:
                per[k]["other"].append(e["text"])
        for w in o["warnings"]:
            loc = where.get(w["line"])
            if loc is None or loc[1] == 0:
                raise ToolError("vh-match: unreachable-arm warning not on an arm line: %s" % w)
            per[loc[0]]["flagged"].append(loc[1])
        for r, c in zip(batch, per):
            c["flagged"] = sorted(set(c["flagged"]))
            res[r["id"]] = c
    return res


_iso = [0]


def _front_single(ctx, part, panicked=None):
    """One package for `part`; after a compiler panic the batch is bisected down to single matrices."""
    if panicked is None:
        _iso[0] += 1
        src, where = render_front(part)
        pid = "mi%d" % _iso[0]
        inp = os.path.join(ctx.work, "%s.in.ndjson" % pid)
        outp = os.path.join(ctx.work, "%s.out.ndjson" % pid)
        write_ndjson(inp, [{"id": pid, "files": {"src/main.sw": src}, "std": True}])
        ctx.vh("vh-match", ["--in", inp, "--out", outp, "--work", os.path.join(ctx.work, "fpk-iso")],
               env={"HOME": ctx.work}, timeout=3000)
        o = read_ndjson(outp)[0]
        panicked = o.get("panic")
    if panicked:
        if len(part) == 1:
            return {part[0]["id"]: {"nonexh": False, "missing": "", "flagged": [], "other": ["panic: " + panicked]}}
        half = len(part) // 2
        out = _front_single(ctx, part[:half])
        out.update(_front_single(ctx, part[half:]))
        return out
    if o.get("err") or not o.get("complete", True):
        raise ToolError("vh-match could not check %s: %s" % (pid, o.get("err")))
    per = [{"nonexh": False, "missing": "", "flagged": [], "other": []} for _ in part]
    for e in o["errors"]:
        k = where[e["line"]][0]
        if e["k"] == "nonexh":
            per[k]["nonexh"], per[k]["missing"] = True, e["missing"]
        else:
            per[k]["other"].append(e["text"])
    for w in o["warnings"]:
        loc = where[w["line"]]
        per[loc[0]]["flagged"].append(loc[1])
    return {r["id"]: dict(c, flagged=sorted(set(c["flagged"]))) for r, c in zip(part, per)}


def run_exec(ctx, recs, procs=4):
    """Build for real and run: -> {rec id: {"res": [ints]} | {"fail": text}}"""
    batches = [recs[i:i + EXEC_BATCH] for i in range(0, len(recs), EXEC_BATCH)]
    out = {}
    todo = [("mx%d" % b, batch) for b, batch in enumerate(batches)]
    rnd = 0
    while todo:
        rnd += 1
        pk = [{"id": pid, "files": {"src/main.sw": render_exec(batch)}, "std": True, "profile": "debug",
               "run": True, "runners": 1, "want": ["diag"]} for pid, batch in todo]
        res = run_packages(ctx, pk, procs=procs)
        nxt = []
        for pid, batch in todo:
            r = res[pid]
            b = r["built"]
            fail = None
            if r["crashed"]:
                fail = "compiler crashed: " + (r["crashed"].get("stderr") or "")[-300:]
            elif b is None:
                fail = "no Built event"
            elif b.get("timeout"):
                raise ToolError("vh-exec: package %s timed out (machine load?)" % pid)
            elif not b["ok"]:
                fail = "build failed: " + (b.get("panic") or b.get("err") or "") + " " + (b.get("diag") or "")[-600:]
            elif r["runfailed"]:
                fail = "run failed: %s" % (r["runfailed"].get("panic") or r["runfailed"].get("err"))
            if fail is not None:
                if len(batch) == 1:
                    out[batch[0]["id"]] = {"fail": fail}
                else:      # isolate: a build failure of one matrix must not hide the others
                    h = len(batch) // 2
                    nxt.append(("%s_a%d" % (pid, rnd), batch[:h]))
                    nxt.append(("%s_b%d" % (pid, rnd), batch[h:]))
                continue
            tests = {t["test"]: t for t in r["tests"]}
            for k, rec in enumerate(batch):
                t = tests.get("t_%d" % k)
                if t is None:
                    out[rec["id"]] = {"fail": "test t_%d did not run" % k}
                    continue
                vals = []
                for rc in t["receipts"]:
                    if rc["t"] == "logdata":
                        vals.append(int.from_bytes(bytes(rc["data"]), "big"))
                    elif rc["t"] == "log":
                        vals.append(int.from_bytes(bytes(rc["ra"]), "big"))
                if t["state"]["k"] == "revert" or len(vals) != len(rec["vals"]):
                    # pad: the validator compares position by position; -1 never equals an arm index
                    vals = (vals + [-1] * len(rec["vals"]))[:len(rec["vals"])]
                out[rec["id"]] = {"res": vals}
        todo = nxt
    return out


# ------------------------------------------------------------------ judging
def trace_record(rec, c, ex):
    ws, wsok = ([], True)
    if c["nonexh"]:
        ws, wsok = parse_missing(c["missing"], rec["t"])
    other = list(c["other"])
    run, res = False, []
    if ex is not None:
        if "fail" in ex:
            other.append(ex["fail"])
        else:
            run, res = True, ex["res"]
    return {"id": rec["id"], "t": rec["t"], "M": rec["M"], "sfx": rec.get("sfx", False),
            "c": {"nonexh": c["nonexh"], "missing": c["missing"], "wsok": wsok, "ws": ws,
                  "flagged": c["flagged"], "other": other},
            "run": run, "vals": rec["vals"] if run else [], "res": res}


def judge(ctx, trecs, procs=4, tag="trace"):
    """Run Trace_MatchSem over the records (sharded, parallel). -> {id: judgement json} of rejected ones."""
    shards = [trecs[i::procs] for i in range(procs)]

    def one(a):
        si, items = a
        if not items:
            return {}, 0
        tp = os.path.join(ctx.work, "%s-%d.ndjson" % (tag, si))
        write_ndjson(tp, items)
        tr = ctx.tlc_trace("Trace_MatchSem", "Trace_MatchSem", tp, name="%s%d" % (tag, si), timeout=3000)
        rej = {}
        for m in re.finditer(r'<<"REJECT", (\d+), "([^"]*)", "(.*)">>', tr.out):
            rej[m.group(2)] = json.loads(m.group(3).replace('\\"', '"').replace("\\\\", "\\"))
        if tr.violated not in (None, "postcondition"):
            raise ToolError("trace validation failed unexpectedly: %s" % tr.violated)
        if (tr.violated == "postcondition") != bool(rej):
            raise ToolError("trace validation: postcondition and REJECT lines disagree (%s)" % tag)
        if tr.distinct != len(items) + 1:
            raise ToolError("trace validation consumed %d of %d records" % (tr.distinct - 1, len(items)))
        return rej, len(items)

    rej, n = {}, 0
    with ThreadPoolExecutor(max_workers=procs) as ex:
        for r, k in ex.map(one, enumerate(shards)):
            rej.update(r)
            n += k
    return rej, n


def finding_key(rec, j):
    clauses = "".join(x for x in "abcde" if not j[x])
    return "%s|%s|%s" % (clauses, r_type(rec["t"]), r_matrix(rec))


def describe(rec, tr, j):
    bad = [x for x in "abcde" if not j[x]]
    parts = []
    if "a" in bad:
        parts.append("compiler says %s, model says %s" % (
            "non-exhaustive" if tr["c"]["nonexh"] else "exhaustive", "exhaustive" if j["exh"] else "non-exhaustive"))
    if "b" in bad:
        parts.append("witness %s %s" % (tr["c"]["missing"], "denotes covered values" if tr["c"]["wsok"] else "is not a pattern of the type"))
    if "c" in bad:
        parts.append("arms flagged unreachable %s, model %s" % (tr["c"]["flagged"], sorted(j["unreach"])))
    if "d" in bad:
        parts.append("run-time arms %s differ from Arm(M,v)" % (tr["res"],))
    if "e" in bad:
        parts.append("other error: %s" % "; ".join(tr["c"]["other"])[:300])
    return "match %s { %s }: %s" % (r_type(rec["t"]), r_matrix(rec), "; ".join(parts))


# ------------------------------------------------------------------ binding self-test
def mutants(trecs):
    """Corrupt one recorded verdict of accepted records; each mutant must be rejected."""
    out = []
    for tr in trecs:
        m = json.loads(json.dumps(tr))
        kind = len(out) % 4
        if kind == 0:
            m["c"]["nonexh"] = not m["c"]["nonexh"]
            if m["c"]["nonexh"]:
                m["c"]["ws"], m["c"]["wsok"], m["c"]["missing"] = [{"k": "wild"}], True, "`_`"
        elif kind == 1:
            fl = set(m["c"]["flagged"])
            fl ^= {1}
            m["c"]["flagged"] = sorted(fl)
        elif kind == 2:
            if not m["run"] or not m["res"]:
                continue
            m["res"][-1] = m["res"][-1] % len(m["M"]) + 1 if len(m["M"]) > 1 else 0
        else:
            if not m["c"]["nonexh"]:
                continue
            m["c"]["ws"], m["c"]["wsok"], m["c"]["missing"] = [{"k": "wild"}], True, "`_`"
            if not any(True for _ in m["M"]):
                continue
        m["id"] = "mut%d:%s" % (kind, tr["id"])
        out.append(m)
    return out


# ------------------------------------------------------------------ driver
def run(ctx):
    if os.environ.get("C14_VH_DIR"):
        # development aid: use harness binaries built against a scratch worktree of /repo
        d = os.environ["C14_VH_DIR"]
        ctx._built.update({"vh-match", "vh-exec"})
        ctx.vh_path = lambda b: os.path.join(d, b)
        log("[C14] using harness binaries from " + d)
    units = all_units()
    if ctx.quick:
        # VERIF_SEED selects which pieces of the pool are run
        units = slice_for_seed([u for u in units if u[0].startswith("x_")], ctx.seed, 1) + \
                slice_for_seed([u for u in units if u[0].startswith("r_")], ctx.seed, 3)
    t0 = time.time()
    with ThreadPoolExecutor(max_workers=4) as ex:
        pools = list(ex.map(lambda u: gen_unit(ctx, u), units))
    recs = []
    per_pool = {}
    for u, p in zip(units, pools):
        per_pool[u[0]] = len(p)
        recs += p
    log("[C14] %d matrices from %d pool pieces (TLC %.0fs)" % (len(recs), len(units), time.time() - t0))

    t0 = time.time()
    front = run_front(ctx, recs)
    accepted = [r for r in recs if not front[r["id"]]["nonexh"] and not front[r["id"]]["other"]]
    log("[C14] front end (%.0fs): %d accepted, %d rejected as non-exhaustive, %d other errors" % (
        time.time() - t0, len(accepted), sum(1 for r in recs if front[r["id"]]["nonexh"]),
        sum(1 for r in recs if front[r["id"]]["other"])))
    t0 = time.time()
    execd = run_exec(ctx, accepted)
    log("[C14] executed %d matrices (%.0fs)" % (len(execd), time.time() - t0))
    t0 = time.time()
    trecs = [trace_record(r, front[r["id"]], execd.get(r["id"])) for r in recs]
    write_ndjson(os.path.join(ctx.work, "records.ndjson"), trecs)
    rej, validated = judge(ctx, trecs)
    log("[C14] trace validation: %d records, %d rejected (%.0fs)" % (validated, len(rej), time.time() - t0))
    byid = {r["id"]: r for r in recs}
    tbyid = {t["id"]: t for t in trecs}
    clause_count = {}
    for rid in sorted(rej):
        j = rej[rid]
        for x in "abcde":
            if not j[x]:
                clause_count[x] = clause_count.get(x, 0) + 1
        ctx.report(finding_key(byid[rid], j), describe(byid[rid], tbyid[rid], j),
                   {"matrix": byid[rid], "record": tbyid[rid], "model": j, "source": "fn m(s: %s) -> u64 { match s { %s } }" % (
                       r_type(byid[rid]["t"]), " ".join("%s => %d," % (r_arm(byid[rid], p), i + 1)
                                                        for i, p in enumerate(byid[rid]["M"])))})
    # binding: corrupted verdicts of accepted records must all be rejected by the trace spec
    good = [t for t in trecs if t["id"] not in rej]
    muts = mutants(slice_for_seed(good, ctx.seed, 200 if ctx.quick else 800))
    mrej, _ = judge(ctx, muts, tag="mut") if muts else ({}, 0)
    missed = [m["id"] for m in muts if m["id"] not in mrej]
    if missed:
        raise ToolError("binding self-test: %d corrupted records were accepted, e.g. %s" % (len(missed), missed[:3]))

    n_exh = sum(1 for r in recs if r["exh"])
    n_unr = sum(1 for r in recs if r["unreach"])
    samples = []
    for t in trecs[:: max(1, len(trecs) // 4)][:4]:
        samples.append({"id": t["id"], "type": r_type(byid[t["id"]]["t"]), "match": r_matrix(byid[t["id"]]),
                        "compiler": {k: t["c"][k] for k in ("nonexh", "missing", "flagged")}, "run": t["res"]})
    return ctx.finish("model_checking", {
        "traces_validated_against_impl": validated,
        "matrices": len(recs), "per_pool": per_pool,
        "model_exhaustive": n_exh, "model_non_exhaustive": len(recs) - n_exh, "with_unreachable_arm": n_unr,
        "compiled_and_run": sum(1 for t in trecs if t["run"]),
        "values_executed": sum(len(t["res"]) for t in trecs if t["run"]),
        "witnesses_parsed": sum(1 for t in trecs if t["c"]["nonexh"] and t["c"]["wsok"]),
        "rejected_by_clause": clause_count,
        "binding_mutants_rejected": len(muts),
        "exhaustive": "exhaustive pools x_*: all matrices over the small pattern sets up to the stated arm count; "
                      "random pools r_*: fixed TLC seeds",
        "constants": {"NRand": NRAND, "chunks": CHUNKS, "exhaustive_pools": dict(EXH_POOLS), "tlc_seed_base": SEED0, "literals": "L3={0,1,255}, L5={0,1,3,254,255}"},
        "samples": samples,
    }, assumptions=[
        "scrutinee types: bool, u8, enums Ea/Eb/Ec, structs Sa/Sb, tuples of these (see MC_MatchSem.Types); pattern depth <= 2",
        "u8 is matched with untyped literals only (Sway has no range patterns); the value space is the region abstraction "
        "checked against 0..255 by RegionLemma",
        "a witness range bound MAX is read as the maximum of the scrutinee type",
        "binders are not placed inside or-patterns; arm bodies are the constant arm index",
    ])


def one_case(ctx, rec):
    """The whole pipeline on one matrix: -> (trace record, judgement or None when accepted)."""
    front = run_front(ctx, [rec], procs=1)
    c = front[rec["id"]]
    ex = None
    if not c["nonexh"] and not c["other"]:
        ex = run_exec(ctx, [rec], procs=1).get(rec["id"])
    tr = trace_record(rec, c, ex)
    rej, _ = judge(ctx, [tr], procs=1, tag="replay")
    return tr, rej.get(rec["id"])


def replay(path):
    """Re-execute one violation file: compile (and run) the match again, judge it again, print both sides."""
    v = json.load(open(path))
    rec = v["replay"].get("matrix")
    if rec is None:
        print(json.dumps(v, indent=1))
        return 0
    ctx = Ctx("C14replay", "quick", 0)
    tr, j = one_case(ctx, rec)
    print("source:   fn m(s: %s) -> u64 { match s { %s } }" % (
        r_type(rec["t"]), " ".join("%s => %d," % (r_arm(rec, p), i + 1) for i, p in enumerate(rec["M"]))))
    print("compiler: non-exhaustive=%s missing=%s flagged-unreachable=%s other=%s" % (
        tr["c"]["nonexh"], tr["c"]["missing"], tr["c"]["flagged"], tr["c"]["other"]))
    if tr["run"]:
        print("run:      %s" % ", ".join("%s -> %d" % (r_val(x, rec["t"]), r) for x, r in zip(rec["vals"], tr["res"])))
    print("model:    exhaustive=%s unreachable=%s Arm=%s" % (rec["exh"], rec["unreach"], rec["arm"]))
    if j is None:
        print("verdict:  accepted by Trace_MatchSem")
        return 0
    print("verdict:  REJECTED, clauses %s" % [x for x in "abcde" if not j[x]])
    return 1
