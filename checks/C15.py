"""C15 Builds are deterministic -- Artifacts.tla (first build binds, later builds must agree) + vh-exec.

1. TLC model-checks the tiny Artifacts model exhaustively (MC_Artifacts: the history of accepted builds
   always defines a function <<pkg, profile>> -> artifacts).
2. Every pool package is built RUNS x {debug, release} times, each build in a FRESH vh-exec process (one
   package per process, forc_pkg::build_with_options, `want: files`: forc writes <pkg>/out/<profile>/),
   at the SAME package path, while the things that may legitimately differ between processes vary:
   std's per-process hash seeds (by themselves), RAYON_NUM_THREADS (1/4/16), the working directory of the
   process.  The files are hashed as forc wrote them (no JSON re-serialisation).
3. One event per build: Built(pkg, profile, ok, sha256(.bin), sha256(-abi.json), sha256(-storage_slots.json),
   sha256(-bin-root | -bin-hash)); Trace_Artifacts.tla accepts a record iff Artifacts!Build is enabled.
4. Informational probes (never an alarm): the same package built at a different (deeper) path, and the debug
   symbols file.
"""
import hashlib, json, os, shutil
from concurrent.futures import ThreadPoolExecutor
from lib.common import *
from lib import c15pool

RUNS = 3
THREADS = ["1", "4", "16"]
PROFILES = ["debug", "release"]
SUFFIX = [("bytecode", ".bin"), ("abi", "-abi.json"), ("slots", "-storage_slots.json"), ("root", "-bin-root"), ("root", "-bin-hash")]


def _sha(b):
    return hashlib.sha256(b).hexdigest()


def _build_once(ctx, pkg, profile, run, workdir, cwd, tag):
    """One build in a fresh vh-exec process. Returns (event|None, files{kind: bytes}, info)."""
    rec = {k: v for k, v in pkg.items() if k != "origin"}
    rec.update({"profile": profile, "run": False, "want": ["files", "keep"]})
    io = os.path.join(ctx.work, "io")
    os.makedirs(io, exist_ok=True)
    os.makedirs(cwd, exist_ok=True)
    inp = os.path.join(io, "%s-%s-%s.in.ndjson" % (pkg["id"], profile, tag))
    outp = os.path.join(io, "%s-%s-%s.out.ndjson" % (pkg["id"], profile, tag))
    write_ndjson(inp, [rec])
    home = os.path.join(ctx.work, "home")
    os.makedirs(home, exist_ok=True)
    for attempt in range(2):
        if os.path.exists(outp):
            os.remove(outp)
        try:
            p = ctx.vh("vh-exec", ["--in", inp, "--out", outp, "--work", workdir, "--pkg-timeout", 900 * (attempt + 1)],
                       env={"RAYON_NUM_THREADS": THREADS[run % len(THREADS)], "HOME": home}, check=False,
                       timeout=2000 * (attempt + 1), cwd=cwd)
            rc = p.returncode
        except ToolError:
            rc = -9
        evs = read_ndjson(outp) if os.path.exists(outp) else []
        built = [e for e in evs if e["ev"] == "Built"]
        if built and not built[0].get("timeout"):
            break
        built = []
        if rc not in (3, -9):     # hard crash: data, not load
            break
    os.remove(inp)
    ev = {"ev": "Built", "pkg": pkg["id"], "profile": profile, "run": run, "tag": tag,
          "ok": "inconclusive", "bytecode": "none", "abi": "none", "slots": "none", "root": "none"}
    files = {}
    if not built:
        ev["ok"] = "crash" if rc not in (3, -9) else "inconclusive"
        ev["detail"] = "rc=%s" % rc
        return ev, files
    b = built[0]
    if b.get("panic"):
        ev["ok"] = "panic"
        ev["detail"] = b["panic"][:300]
        return ev, files
    if not b["ok"]:
        ev["ok"] = "diagnostics"
        ev["detail"] = (b.get("err") or "")[:200]
        return ev, files
    ev["ok"] = "built"
    outdir = os.path.join(workdir, pkg["id"], "out", profile)
    names = sorted(os.listdir(outdir)) if os.path.isdir(outdir) else []
    for n in names:
        data = open(os.path.join(outdir, n), "rb").read()
        for kind, suf in SUFFIX:
            if n.endswith(suf):
                files[kind] = data
                ev[kind] = _sha(data)
        if n == "debug_symbols.obj":
            files["dbg"] = data
            ev["dbg"] = _sha(data)
    ev["files"] = names
    ev["bytecode_sha_api"] = (b.get("pkgs") or [{}])[-1].get("bytecode_sha")
    return ev, files


def _package_runs(ctx, pkg, probe, runs):
    """All builds of one package, sequentially (same path); returns (events, probes, saved artifacts)."""
    wd = os.path.join(ctx.work, "pk")            # package path = <wd>/<id>: identical for every build
    cwds = [ctx.work, os.path.join(ctx.work, "cwd", "a"), os.path.join(ctx.work, "cwd", "a", "b", "c")]
    events, probes = [], []
    keep = {}
    for profile in PROFILES:
        for run in range(runs):
            ev, files = _build_once(ctx, pkg, profile, run, wd, cwds[run % len(cwds)], "r%d" % run)
            events.append(ev)
            keep[(profile, run)] = files
        if probe:
            wd2 = os.path.join(ctx.work, "pk-other", "deeper", "path")
            ev, files = _build_once(ctx, pkg, profile, 0, wd2, ctx.work, "probe")
            probes.append(ev)
            shutil.rmtree(os.path.join(wd2, pkg["id"]), ignore_errors=True)
    shutil.rmtree(os.path.join(wd, pkg["id"]), ignore_errors=True)
    return events, probes, keep


def run(ctx):
    mc = ctx.tlc("MC_Artifacts", "MC_Artifacts", workers=2, coverage=True)
    if mc.violated:
        ctx.report("model:" + mc.violated, "Artifacts.tla violates its own invariant " + mc.violated,
                   {"tlc": mc.counterexample()[:4000]})
    ctx.build_vh("vh-exec")
    full = c15pool.pool(n_gen=16, n_corpus=35)      # 3 hand + 2 fixed corpus + 35 corpus + 16 generated = 56
    fixed = [p for p in full if p["origin"] == "hand" or p["origin"].split(":", 1)[-1] in c15pool.CORPUS_ALWAYS]
    rest = [p for p in full if p not in fixed]
    if ctx.quick:
        # quick: the contract with storage, the configurables script, and a seed-selected slice of the rest;
        # two builds per profile, no path probe
        keepfixed = [p for p in fixed if p["id"] in ("hand_contract_storage", "hand_script_conf")]
        pkgs = keepfixed + slice_for_seed(rest, ctx.seed, 2)
    else:
        pkgs = full
    probe = not ctx.quick
    runs = 2 if ctx.quick else RUNS
    with ThreadPoolExecutor(max_workers=4) as ex:
        results = list(ex.map(lambda p: _package_runs(ctx, p, probe, runs), pkgs))
    events = [e for r in results for e in r[0]]
    probes = [e for r in results for e in r[1]]
    keep = {p["id"]: r[2] for p, r in zip(pkgs, results)}
    inconclusive = [e for e in events if e["ok"] == "inconclusive"]
    for e in inconclusive:
        log("[C15] inconclusive (time-out under load, not an event): %s %s run %d" % (e["pkg"], e["profile"], e["run"]))
    trace = [e for e in events if e["ok"] != "inconclusive"]
    slim = [{k: e[k] for k in ("ev", "pkg", "profile", "run", "ok", "bytecode", "abi", "slots", "root")} for e in trace]
    # ---- TLC decides
    validated = 0
    chunk = slim
    rnd = 0
    by_key = {}
    for e in trace:
        by_key.setdefault((e["pkg"], e["profile"]), []).append(e)
    while chunk:
        rnd += 1
        tp = os.path.join(ctx.work, "trace-%d.ndjson" % rnd)
        write_ndjson(tp, chunk)
        tr = ctx.tlc_trace("Trace_Artifacts", "Trace_Artifacts", tp, name="trace%d" % rnd)
        if tr.violated is None:
            validated += len(chunk)
            break
        k = tr.first_unmatched()
        if tr.violated != "postcondition" or k is None:
            raise ToolError("Trace_Artifacts failed unexpectedly: %s" % tr.violated)
        bad = chunk[k - 1]
        validated += k - 1
        first = by_key[(bad["pkg"], bad["profile"])][0]
        diff = [f for f in ("ok", "bytecode", "abi", "slots", "root") if first[f] != bad[f]]
        # replay = the two differing artifacts, saved next to the violation file
        saved = {}
        for f in diff:
            for which, run_ in (("first", first["run"]), ("later", bad["run"])):
                data = keep[bad["pkg"]].get((bad["profile"], run_), {}).get(f)
                if data is not None:
                    path = os.path.join(ctx.work, "diff-%s-%s-%s-%s" % (bad["pkg"], bad["profile"], f, which))
                    open(path, "wb").write(data)
                    saved["%s.%s" % (f, which)] = os.path.relpath(path, ROOT)
        src = next(p for p in pkgs if p["id"] == bad["pkg"])
        ctx.report("nondet:%s:%s:%s" % (src["origin"], bad["profile"], ",".join(diff)),
                   "two builds of %s (%s) in separate processes differ in %s" % (bad["pkg"], bad["profile"], diff),
                   {"first": first, "later": bad, "artifacts": saved, "origin": src["origin"], "files": src["files"],
                    "manifest": src.get("manifest")})
        # drop every later record of this key, continue with the rest
        chunk = [e for e in chunk[k:] if not (e["pkg"] == bad["pkg"] and e["profile"] == bad["profile"])]
    # ---- binding self-test: corrupt one digest of a repeated build -> the trace spec must reject exactly there
    selftest = None
    rebuilt = [i for i, e in enumerate(slim) if e["run"] > 0 and e["ok"] == "built"]
    if rebuilt and not ctx.violations:
        i = rebuilt[len(rebuilt) // 2]
        corrupted = [dict(e) for e in slim]
        corrupted[i]["abi"] = "0" * 64
        tp = os.path.join(ctx.work, "trace-selftest.ndjson")
        write_ndjson(tp, corrupted)
        tr = ctx.tlc_trace("Trace_Artifacts", "Trace_Artifacts", tp, name="selftest", count=False)
        selftest = {"corrupted_record": i + 1, "rejected_at": tr.first_unmatched()}
        if tr.violated != "postcondition" or tr.first_unmatched() != i + 1:
            raise ToolError("binding self-test failed: corrupted record %d not rejected (%s, %s)" % (i + 1, tr.violated, tr.first_unmatched()))
    # ---- informational probes
    base = {(e["pkg"], e["profile"]): e for e in reversed(trace)}
    path_sensitive = []
    for pe in probes:
        b = base.get((pe["pkg"], pe["profile"]))
        if b and pe["ok"] == "built" and b["ok"] == "built":
            d = [f for f in ("bytecode", "abi", "slots", "root") if pe[f] != b[f]]
            if d:
                path_sensitive.append({"pkg": pe["pkg"], "profile": pe["profile"], "differs": d})
    dbg_var = sorted({"%s:%s" % k for k, es in by_key.items() if len({e.get("dbg") for e in es if e["ok"] == "built"}) > 1})
    api_mismatch = [e["pkg"] for e in trace if e["ok"] == "built" and e.get("bytecode_sha_api") and e["bytecode_sha_api"] != e["bytecode"]]
    built_keys = [k for k, es in by_key.items() if all(e["ok"] == "built" for e in es)]
    nontrivial = len([k for k in built_keys if len(by_key[k]) >= 2])
    kinds = {}
    for k in built_keys:
        e = by_key[k][0]
        for f in ("abi", "slots", "root"):
            if e[f] != "none":
                kinds[f] = kinds.get(f, 0) + 1
    return ctx.finish("exploration", {
        "evaluations": len(trace),
        "distinct_nontrivial": nontrivial,
        "rule": "Trace_Artifacts.tla: the first Built(pkg, profile, artifacts) binds, every later build of the same key in "
                "another process must carry identical sha256 of .bin, -abi.json, -storage_slots.json and -bin-root/-bin-hash "
                "as written by forc",
        "traces_validated_against_impl": validated,
        "packages": len(pkgs), "pool_size": len(full), "runs_per_profile": runs, "profiles": PROFILES,
        "keys_built_ok": len(built_keys),
        "keys_other_outcome": sorted("%s:%s=%s" % (k[0], k[1], by_key[k][0]["ok"]) for k in by_key if k not in built_keys),
        "keys_with_artifact": kinds,
        "inconclusive_builds": len(inconclusive),
        "variation": {"RAYON_NUM_THREADS": THREADS, "cwd_depths": 3, "hash_seeds": "per process (std RandomState)"},
        "probe_other_path_differs": path_sensitive,
        "probe_debug_symbols_vary": dbg_var,
        "probe_api_sha_vs_file_sha_mismatch": api_mismatch,
        "binding_selftest": selftest,
        "action_coverage": mc.coverage_actions(),
        "samples": [{k: e[k] for k in ("pkg", "profile", "run", "ok", "bytecode", "abi", "slots", "root")} for e in trace[:3] + trace[-3:]],
    }, assumptions=[
        "each build is one fresh vh-exec process calling forc_pkg::build_with_options with tests included (the forc test build); "
        "artifacts are the files forc writes to <pkg>/out/<profile>/",
        "the package path is the same for all compared builds; a different path is probed for information only",
        "the compiler itself is single-threaded (rayon is used by forc-test's runner only), so the thread-count variation "
        "exercises nothing beyond process start-up; the effective perturbation is the per-process hash seed and the working directory",
        "contract ids / predicate roots are pure functions of the compared bytes (forc's -bin-root / -bin-hash files are compared as written)",
        "thin model: TLC decides only 'later build equals first build' on the recorded log",
    ])


def replay(path):
    v = json.load(open(path))
    print(json.dumps({k: v["replay"][k] for k in ("first", "later", "artifacts", "origin")}, indent=1))
    return 0
