"""C27 Std collections and wide integers agree with reference models -- StdModels.tla + vh-exec.

1. TLC model-checks the collection model on the generation configurations themselves (CapInv, the algebraic
   Laws, every history prefix) and prints every maximal operation history as a REPLAY record (exhaustive
   breadth-first pools + fixed-seed random walks of 40 operations); NumSpec enumerates the numeric case pool
   (boundary values x operations x flag modes) and checks the numeric model's own laws on every case.
2. lib/stdgen.py renders every history / case as one `#[test]` that logs every observable; vh-exec builds the
   packages against /repo/sway-lib-std and runs them on the FuelVM through forc-test.
3. Trace_StdModels.tla replays every recorded test through the model (operation by operation) and decides every
   logged value and the outcome (returned / reverted).
"""
import json, os, re, time
from concurrent.futures import ThreadPoolExecutor
from lib.common import *
from lib import stdgen
from lib.swayexec import run_packages, observe

# exhaustive generation configurations (spec/Gen_StdModels_<name>.cfg) and simulation configurations
GEN = ["vec_u64_new", "vec_u64_cap", "vec_u64_bases", "vec_u8_bases", "vec_u256_bases", "vec_pair_bases",
       "bytes_new", "bytes_bases", "string"]
SIM = ["vec_u64", "vec_u8", "vec_u256", "vec_pair", "bytes", "vec_u64_grow", "vec_pair_grow", "bytes_grow"]
SIM_SEEDS = [11, 12]
SIM_TWICE = {"vec_u64", "bytes", "vec_u64_grow", "vec_pair_grow", "bytes_grow"}      # these run with both seeds
SIM_WALKS = 100
NUM = ["u8", "u16", "u32", "u64", "u128a", "u128b", "u256a", "u256b", "u256c"]
WIDE_OPS = {"add", "sub", "mul", "wrapping_add", "wrapping_sub", "wrapping_mul", "overflowing_add", "overflowing_mul", "divmod", "cmp"}
TLC_PAR = 4          # single-worker TLC processes side by side (the design-level run adds 2 workers in the thorough tier)


def _gen(ctx, name, sim_seed=None):
    if sim_seed is None:
        r = ctx.tlc("MC_StdModels", "Gen_StdModels_" + name, workers=1, xss="256m", name="gen-" + name, timeout=3600)
    else:
        r = ctx.tlc("MC_StdModels", "Sim_StdModels_" + name, workers=1, xss="256m", simulate=SIM_WALKS, depth=60,
                    tlc_seed=sim_seed, name="sim-%s-%d" % (name, sim_seed), count=False, timeout=3600)
    if r.violated:
        ctx.report("model:%s:%s" % (name, r.violated), "StdModels violates its own invariant %s in %s" % (r.violated, name),
                   {"tlc": r.counterexample()[:4000]})
    recs = r.printed("REPLAY")
    # a walk is printed once per evaluation of the invariant on its last state: keep distinct histories, in order
    seen, out = set(), []
    for x in recs:
        key = json.dumps(x["ops"], sort_keys=True)
        if key not in seen:
            seen.add(key)
            out.append(x)
    src = ("sim:%s:%d" % (name, sim_seed)) if sim_seed is not None else ("gen:" + name)
    for n, x in enumerate(out):
        x["id"] = "%s#%d" % (src, n)
    return r, out


def _gen_num(ctx, ty):
    r = ctx.tlc("MC_StdModels", "Num_StdModels_" + ty, workers=1, xss="256m", name="num-" + ty, timeout=3600)
    if r.violated:
        ctx.report("model:num:%s:%s" % (ty, r.violated), "the numeric model violates its own law %s on %s" % (r.violated, ty),
                   {"tlc": r.counterexample()[:4000]})
    cases = r.printed("REPLAY")
    for c in cases:
        c["id"] = "num:%s:%s:%s:%s:%s:%d%s" % (c["ty"], c["op"], c["mode"], bytes(c["a"]).hex(), bytes(c["b"]).hex(), c["n"],
                                             (":" + c["t2"]) if c["t2"] else "")
    return r, cases


def _validate_shard(ctx, idx, recs):
    """Trace validation of one shard: one TLC run decides every record; rejected records are printed by the trace
    spec (REJECTED ...) and skipped. Returns (validated, [(record, k, expected)])"""
    if not recs:
        return 0, []
    tp = os.path.join(ctx.work, "trace-%d.ndjson" % idx)
    write_ndjson(tp, recs)
    tr = ctx.tlc_trace("Trace_StdModels", "Trace_StdModels", tp, name="trace-%d" % idx, timeout=5400, count=False)
    os.remove(tp)
    rej = []
    for m in re.finditer(r'<<"REJECTED", (\d+), (\d+), "([^"]*)", "(.*)">>', tr.out):
        l, k = int(m.group(1)), int(m.group(2))
        try:
            expected = json.loads(m.group(4).replace('\\"', '"').replace("\\\\", "\\"))
        except Exception:
            expected = m.group(4)
        rej.append((recs[l - 1], k, expected))
    m = re.search(r'<<"NOT-ACCEPTED", "consumed", (\d+), "of", (\d+), "rejected", (\d+)>>', tr.out)
    if tr.violated is None and not rej:
        return len(recs), []
    if tr.violated != "postcondition" or not m or int(m.group(1)) != len(recs) or int(m.group(3)) != len(rej):
        raise ToolError("Trace_StdModels failed unexpectedly (%s); see work/%s/tlc-trace-%d.out" % (tr.violated, ctx.pid, idx))
    return len(recs) - len(rej), rej


def _content_key(r):
    return json.dumps({k: v for k, v in r.items() if k not in ("id", "profile", "code", "also")}, sort_keys=True)


def validate(ctx, recs, shard=1200):
    """Records with identical content (same input, same observation -- typically the debug and the release
    build of one test) are decided once; `also` lists the ids/profiles that share the decision."""
    uniq, index = [], {}
    for r in recs:
        k = _content_key(r)
        if k in index:
            index[k]["also"].append("%s/%s" % (r["id"], r["profile"]))
        else:
            r = dict(r)
            r["also"] = []
            index[k] = r
            uniq.append(r)
    mult = {id(r): 1 + len(r["also"]) for r in uniq}
    # numeric records of the wide types are the expensive ones: spread them over the shards
    uniq.sort(key=lambda r: (r["rt"] == "num" and r["ty"] in ("u128", "u256")))
    cheap = [r for r in uniq if not (r["rt"] == "num" and r["ty"] in ("u128", "u256"))]
    dear = [r for r in uniq if r["rt"] == "num" and r["ty"] in ("u128", "u256")]
    shards = [cheap[i:i + shard] for i in range(0, len(cheap), shard)] + [dear[i:i + 250] for i in range(0, len(dear), 250)]
    shards.sort(key=lambda s: -len(s) * (5 if s and s[0]["rt"] == "num" and s[0]["ty"] in ("u128", "u256") else 1))
    with ThreadPoolExecutor(max_workers=TLC_PAR) as ex:
        res = list(ex.map(lambda a: _validate_shard(ctx, a[0], a[1]), enumerate(shards)))
    rej = [x for r in res for x in r[1]]
    nrej = sum(mult.get(id(x[0]), 1) for x in rej)
    return len(recs) - nrej, rej


def execute(ctx, hist, cases, profile="debug", tag="p"):
    """Render, build and run. Returns (trace records, failures)."""
    pk1, where1 = stdgen.coll_packages(hist, tag + "c")
    pk2, where2 = stdgen.num_packages(cases, tag)
    pkgs = pk1 + pk2
    for p in pkgs:
        p["profile"] = profile
    res = run_packages(ctx, pkgs, procs=4)
    recs, failures = [], []
    where = dict(where1)
    where.update(where2)
    per_pkg = {}
    for (pid, name), r in where.items():
        per_pkg.setdefault(pid, {})[name] = r
    for p in pkgs:
        r = res[p["id"]]
        b = r["built"]
        if r["crashed"] or b is None or not b["ok"] or r["runfailed"]:
            detail = (r["crashed"] or {}).get("stderr", "") if r["crashed"] else \
                     ((b or {}).get("err") or (b or {}).get("panic") or (b or {}).get("diag") or json.dumps(r["runfailed"]))
            failures.append({"pkg": p["id"], "profile": profile, "detail": str(detail)[-1500:],
                             "tests": [x["id"] for x in per_pkg[p["id"]].values()][:5]})
            continue
        seen = set()
        for t in r["tests"]:
            src = per_pkg[p["id"]].get(t["test"])
            if src is None:
                continue
            seen.add(t["test"])
            o = observe(t)
            if "ops" in src:
                recs.append({"rt": "coll", "id": src["id"], "profile": profile, "kind": src["kind"], "ety": src["ety"],
                             "ops": src["ops"], "logs": o["logs"], "out": o["out"], "code": o["code"]})
            else:
                recs.append({"rt": "num", "id": src["id"], "profile": profile, "ty": src["ty"], "op": src["op"], "mode": src["mode"],
                             "a": src["a"], "b": src["b"], "n": src["n"], "t2": src["t2"],
                             "logs": o["logs"], "out": o["out"], "code": o["code"]})
        for name, src in per_pkg[p["id"]].items():
            if name not in seen:
                failures.append({"pkg": p["id"], "profile": profile, "detail": "test %s (%s) produced no result" % (name, src["id"]), "tests": [src["id"]]})
    return recs, failures


def source_of(rec):
    if rec["rt"] == "coll":
        return stdgen.coll_header(rec["kind"], rec["ety"]) + stdgen.render_history("failing", rec)
    return stdgen.NUM_HEADER + stdgen.num_helper(rec) + stdgen.render_num_case("failing", rec)


def finding_key(rec, k):
    """Key naming the specific failing input: numeric case = type/op/mode/operands; history = the operation at which
    the trace stops matching together with the model state it is applied in (independent of the history's index)."""
    if rec["rt"] == "num":
        return rec["id"] + "@" + rec["profile"]
    ops = rec["ops"]
    o = ops[min(k, len(ops)) - 1]
    return "coll:%s:%s:%s(%d,%d,%d)@%s" % (rec["kind"], rec["ety"], o["op"], o["i"], o["j"], o["v"],
                                             ",".join("%s(%d,%d,%d)" % (x["op"], x["i"], x["j"], x["v"]) for x in ops[:min(k, len(ops)) - 1]))


def run(ctx):
    t0 = time.time()
    quick = ctx.quick
    # ---- 0. the collection model on its own (thorough): all histories new ++ <= 3 operations of a Bytes over the full
    #         alphabet, invariants CapInv + Laws, with action coverage
    mc_cov = None
    mc_future = None
    mcx = ThreadPoolExecutor(max_workers=1)
    if not quick:
        mc_future = mcx.submit(lambda: ctx.tlc("MC_StdModels", "MC_StdModels", workers=2, coverage=True, xss="256m", timeout=3600))
    # ---- 1. pools from TLC
    if quick:
        # every pool is generated; the quick tier executes a VERIF_SEED-selected slice of each (below), and all
        # multi-limb arithmetic cases of the wide types
        gens = GEN
        sims = [(s, SIM_SEEDS[ctx.seed % len(SIM_SEEDS)]) for s in SIM]
        nums = NUM
    else:
        gens, sims, nums = GEN, [(s, sd) for s in SIM for sd in SIM_SEEDS if sd == SIM_SEEDS[0] or s in SIM_TWICE], NUM
    jobs = [("gen", g, None) for g in gens] + [("sim", s, sd) for s, sd in sims] + [("num", t, None) for t in nums]

    def do(j):
        return (j, _gen_num(ctx, j[1]) if j[0] == "num" else _gen(ctx, j[1], j[2]))
    with ThreadPoolExecutor(max_workers=TLC_PAR) as ex:
        out = list(ex.map(do, jobs))
    hist, cases, pools, cov = [], [], {}, {}
    for j, (r, recs) in out:
        nm = "%s:%s%s" % (j[0], j[1], (":%d" % j[2]) if j[2] is not None else "")
        pools[nm] = len(recs)
        if j[0] == "num":
            cases += recs
        else:
            hist += recs
    log("[C27] pools %s in %.0fs" % (pools, time.time() - t0))
    if mc_future is not None:
        mc = mc_future.result()
        if mc.violated:
            ctx.report("model:" + mc.violated, "StdModels.tla violates its own invariant " + mc.violated, {"tlc": mc.counterexample()[:4000]})
        mc_cov = mc.coverage_actions()
    mcx.shutdown()
    if quick:
        by_pool = {}
        for h in hist:
            by_pool.setdefault(h["id"].split("#")[0], []).append(h)
        hist = []
        for k in sorted(by_pool):
            hist += slice_for_seed(by_pool[k], ctx.seed, 5 if k.startswith("sim:") else 90)
        wide = [c for c in cases if c["ty"] in ("u128", "u256") and c["op"] in WIDE_OPS]
        rest = [c for c in cases if not (c["ty"] in ("u128", "u256") and c["op"] in WIDE_OPS)]
        by_ty = {}
        for c in rest:
            by_ty.setdefault(c["ty"], []).append(c)
        cases = wide + sum((slice_for_seed(by_ty[t], ctx.seed, 100) for t in sorted(by_ty)), [])
    # anti-vacuity: every operation of the model occurs in the pool, reverting and not
    opcount = {}
    for h in hist:
        for o in h["ops"]:
            opcount[o["op"]] = opcount.get(o["op"], 0) + 1
    # ---- 2./3. execute and validate
    profiles = ["debug"] if quick else ["debug", "release"]
    all_recs, failures = [], []
    for prof in profiles:
        h = hist if prof == "debug" else slice_for_seed(hist, 1, 6000)
        c = cases if prof == "debug" else slice_for_seed(cases, 1, 3000)
        recs, fl = execute(ctx, h, c, profile=prof, tag="d" if prof == "debug" else "r")
        all_recs += recs
        failures += fl
    for f in failures:
        ctx.report("build:%s:%s" % (f["profile"], f["tests"][0] if f["tests"] else f["pkg"]),
                   "generated package %s did not build/run (%s): %s" % (f["pkg"], f["profile"], f["detail"][:400]), f)
    write_ndjson(os.path.join(ctx.work, "records.ndjson"), all_recs)
    log("[C27] %d records executed in %.0fs; validating" % (len(all_recs), time.time() - t0))
    validated, rej = validate(ctx, all_recs)
    log("[C27] validated %d, %d rejections, %.0fs" % (validated, len(rej), time.time() - t0))
    for rec, k, expected in rej:
        what = ("%s: operation %d of the history: observation differs from StdModels" % (rec["id"], k)) if rec["rt"] == "coll" else \
               ("%s (%s): result differs from StdModels.NumExpect" % (rec["id"], rec["profile"]))
        ctx.report(finding_key(rec, k), what, {"record": rec, "first_unmatched_op": k, "model_expected": expected,
                                               "sway_source": source_of(rec)})
    # binding self-test (thorough): corrupt one logged byte of an accepted record -> the trace spec must reject it
    selftest = None
    if not quick and all_recs:
        good = [r for r in all_recs if r["logs"] and not any(r is x[0] for x in rej)][:3]
        bad = []
        for r in good:
            m = json.loads(json.dumps(r))
            m["logs"][-1][-1] = (m["logs"][-1][-1] + 1) % 256
            bad.append(m)
        _, rj = _validate_shard(ctx, 9999, bad)
        selftest = {"corrupted_records": len(bad), "rejected": len(rj)}
        if len(rj) != len(bad):
            raise ToolError("binding self-test failed: corrupted traces were accepted (%d of %d rejected)" % (len(rj), len(bad)))
    nrev = sum(1 for r in all_recs if r["out"] == "revert")
    samples = [{"id": r["id"], "profile": r["profile"], "out": r["out"], "logs": r["logs"][:6]} for r in all_recs[:2] + all_recs[-2:]]
    return ctx.finish("model_checking", {
        "traces_validated_against_impl": validated,
        "histories": len(hist), "numeric_cases": len(cases), "pools": pools, "profiles": profiles,
        "records_executed": len(all_recs), "records_reverting": nrev, "rejections": len(rej),
        "build_or_run_failures": len(failures), "operation_occurrences": opcount,
        "binding_selftest": selftest, "action_coverage": mc_cov,
        "samples": samples,
    }, assumptions=[
        "the documentation is the doc comments of sway-lib-std (vec.sw, bytes.sw, string.sw, u128.sw, math.sw, ops.sw, flags.sw, primitive_conversions); where they are silent the model does not constrain (capacity after undocumented reallocations only has to be >= len; U128::sqrt(0), U128 multiplication with both upper words set under disabled overflow panics, and the value of division by zero / log of zero under disabled unsafe-math panics are not generated or only required not to revert)",
        "revert codes are not compared (the docs say 'Reverts'); only returned/reverted and every logged value",
        "element values are distinct per operation (data independence of the containers); element types u8, u64, u256, (u8,u64) cover raw_ptr's three access paths",
        "pools are finite and deterministic (TLC BFS; TLC -simulate with fixed seeds); VERIF_SEED selects the quick slice",
    ])


def replay(path):
    v = json.load(open(path))
    print(json.dumps({k: v[k] for k in ("property", "key", "what")}, indent=1))
    print(v["replay"].get("sway_source", ""))
    print("model expected:", json.dumps(v["replay"].get("model_expected"), indent=1)[:3000])
    print("observed logs:", json.dumps(v["replay"]["record"]["logs"])[:3000], "out:", v["replay"]["record"]["out"])
    return 0
