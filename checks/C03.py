"""C03 Every IR optimization pass preserves program behaviour.

PassOrder.tla defines the compiler's two pipelines and the space of variants (a registered pass inserted
at any position of the optimization / tail sections, or an optional pass removed); TLC enumerates them.
Hook H1 (SWAY_VERIF_PASSES) builds each generated program under each variant; every observation must
equal SwaySem.Run of the source (Trace_SwaySem.tla) -- so no pass at any position changes behaviour --
and every build must reach the backend and be accepted by it (Trace_Pipeline.tla).
"""
import json
from lib.common import *
from lib import semcheck, pipecheck

POOL = list(range(301, 341))      # generator seeds of the packages used under pipeline variants


def run(ctx):
    configs, _asm, tl = pipecheck.tlc_configs(ctx, 1)
    if ctx.quick:
        seeds = slice_for_seed(POOL, ctx.seed, 2)
        base = [c for c in configs if not c["edits"]]
        configs = base + slice_for_seed([c for c in configs if c["edits"]], ctx.seed, 38)
    else:
        seeds = slice_for_seed(POOL, ctx.seed, 6)
        two, _a, _t = pipecheck.tlc_configs(ctx, 2)
        extra = [c for c in two if len(c["edits"]) == 2]
        configs = configs + slice_for_seed(extra, ctx.seed, 150)
    pkgs = [semcheck.gen_package(s) for s in seeds]
    events, obs, failures, stats = pipecheck.build_events(ctx, pkgs, configs, procs=10, force_verify=False)
    for f in failures:
        ctx.report("%s:%s:%s" % (f["kind"], f["pkg"], ",".join(f["passes"])),
                   "%s under pipeline variant %s (last pass traced: %s): %s" % (f["kind"], f["cfg"], f["last_pass_traced"], f["detail"][:300]), f)
    pv, prej = pipecheck.validate_pipeline(ctx, events, check_rt=False)
    failed_keys = {(f["pkg"], f["cfg"]) for f in failures}
    for rj in prej:
        b = rj.get("build") or {}
        if (b.get("pkg"), b.get("cfg")) in failed_keys:
            continue   # already reported as a failed build
        ctx.report("pipeline:%s:%s" % (b.get("pkg"), b.get("cfg")), "recorded build is not a behaviour of Pipeline.tla: " + rj["why"], rj)
    validated, rej = semcheck.validate(ctx, pkgs, obs)
    semcheck.report_rejections(ctx, rej, pkgs)
    return ctx.finish("model_checking", {
        "traces_validated_against_impl": validated,
        "pipeline_events_validated": pv,
        "programs": len(pkgs), "pipeline_variants": len(configs), "builds": stats["builds"],
        "pass_executions": stats["pass_events"], "pass_executions_that_modified_ir": stats["modifying_pass_events"],
        "per_pass_modified": stats["per_pass_modified"],
        "failed_builds": len(failures),
        "samples": [{"variant": c["name"], "edits": c["edits"], "passes": c["passes"]} for c in configs[:3]],
    }, assumptions=[
        "legal positions are PassOrder.tla's: optimization passes between lower-init-aggr and the FuelVM lowering suffix, and a subset after it; the mandatory lowering passes stay where the compiler puts them",
        "behaviour is judged by SwaySem.tla on the Sway-mini fragment",
        "a pass that never modified the IR of any program proves nothing; per_pass_modified lists how often each fired",
    ])


def replay(path):
    print(json.dumps(json.load(open(path)), indent=1)[:6000])
    return 0
