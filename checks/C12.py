"""C12 Initial storage slots match what storage reads return -- StorageLayout.tla + vh-exec.

1. TLC model-checks StorageLayout on every enumerated declaration: ReadAt(Slots(decl), f, path) = TopImg
   (every field and struct sub-field reads back its initializer through the transcribed serializer and the
   transcribed std reader), implicit fields occupy disjoint addresses, field-id pre-images are pairwise
   distinct.  The as-written reading of the serializer (UnitWord = 1) must be refuted by TLC (binding).
2. TLC prints the deterministic conformance pool (MC_StorageLayout: P1 singles x 4 placements, P2 2..4 fields,
   P3 12 fields; namespaces, explicit `in` keys).
3. Each declaration is rendered to a contract (one reader method and one #[test] per field), built by forc
   (20 contracts per workspace), its emitted storage slots taken, deployed with them by forc-test and read in-VM.
4. Trace_StorageLayout.tla accepts a record iff the emitted slots equal the specification's slots with Hash :=
   real SHA-256 of the spec-given pre-image, and every logged read equals the initializer's canonical encoding.
"""
import json, os
from lib.common import *
from lib import contractgen as cg

PER_WS = 20
QUICK_N = 40


# ------------------------------------------------------------------ rendering (mechanical)
def access(f, path):
    head = "storage" + "".join("::" + n for n in f["ns"]) + "." + f["name"]
    return head + "".join(".f%d" % i for i in path)


def render_storage(fields, tn):
    """Fields grouped into their namespace blocks, in declaration order."""
    tree = {"fields": [], "subs": {}, "order": []}
    for f in fields:
        node = tree
        for n in f["ns"]:
            if n not in node["subs"]:
                node["subs"][n] = {"fields": [], "subs": {}, "order": []}
                node["order"].append(("ns", n))
            node = node["subs"][n]
        node["fields"].append(f)
        node["order"].append(("f", len(node["fields"]) - 1))

    def block(node, ind):
        out = []
        for kind, x in node["order"]:
            if kind == "f":
                f = node["fields"][x]
                key = " in 0x%s" % bytes(f["key"]).hex() if f["key"] else ""
                out.append("%s%s%s: %s = %s," % (ind, f["name"], key, tn.ty(f["ty"]), tn.val(f["ty"], f["v"])))
            else:
                out.append("%s%s {" % (ind, x))
                out += block(node["subs"][x], ind + "    ")
                out.append("%s}," % ind)
        return out
    return "storage {\n" + "\n".join(block(tree, "    ")) + "\n}\n"


def render_contract(rec):
    tn = cg.TypeNamer()
    storage = render_storage(rec["fields"], tn)
    abi, impl, tests = [], [], []
    for i, f in enumerate(rec["fields"]):
        body = " ".join("log(%s.read());" % access(f, p) for p in rec["reads"][i])
        abi.append("    #[storage(read)] fn r%d();" % i)
        impl.append("    #[storage(read)] fn r%d() { %s }" % (i, body))
        tests.append("#[test]\nfn t%d() { abi(R, CONTRACT_ID).r%d(); }" % (i, i))
    return ("contract;\n" + "\n".join(tn.decls) + "\nabi R {\n" + "\n".join(abi) + "\n}\n" + storage +
            "impl R for Contract {\n" + "\n".join(impl) + "\n}\n" + "\n".join(tests) + "\n")


def trace_record(rec, member):
    logs = []
    for i in range(len(rec["fields"])):
        o = member["tests"].get("t%d" % i)
        logs.append(o["logs"] if o else [])
    return {"id": rec["id"], "fields": rec["fields"], "reads": rec["reads"],
            "hashes": [{"dom": p["dom"], "s": p["s"], "h": cg.sha256_pre(p["dom"], p["s"])} for p in rec["pres"]],
            "slots": [{"k": cg.hexbytes(s["key"]), "v": cg.hexbytes(s["value"])} for s in member["slots"]],
            "logs": logs,
            "outs": [member["tests"].get("t%d" % i, {}).get("out") for i in range(len(rec["fields"]))]}


def validate(ctx, trs, cfg="Trace_StorageLayout", name="trace"):
    """Returns (validated, [(record, why)]): Trace_StorageLayout judges every record."""
    return cg.validate_all(ctx, "Trace_StorageLayout", cfg, trs, name=name, shard=100, par=4)


def edge_records():
    """Hand-placed declarations (both tiers): multi-slot values at explicit keys whose low 64-bit words are about to
    carry when the slot index is added -- into the next word, and across two words.  Ordinary pool records."""
    U64 = {"n": 0, "k": "u64", "fs": []}

    def struct(n):
        return {"n": 0, "k": "struct", "fs": [U64] * n}

    def val(n, base):
        return {"k": "a", "es": [{"t": "u64", "b": list((base + j).to_bytes(8, "little")), "k": "i"} for j in range(n)]}

    def key(n):
        return list(n.to_bytes(32, "big"))
    k1 = (1 << 64) | 0xffffffffffffffff                                   # ..0001 ffffffffffffffff : +1 carries into word 2
    k2 = (1 << 192) | (((1 << 128) - 1) << 64) | 0xfffffffffffffffe      # +2 carries across words 2 and 3 into word 4
    k3 = 0xfffffffffffffffd                                               # word 1 alone, +3
    recs = []
    for n, (ka, kb) in enumerate([(k1, k2), (k3, k1 - 1)]):
        fields = [{"ns": [], "name": "ea", "key": key(ka), "ty": struct(9), "v": val(9, 100 + n)},
                  {"ns": [], "name": "eb", "key": key(kb), "ty": struct(5), "v": val(5, 200 + n)}]
        recs.append({"id": 900001 + n, "fields": fields,
                     "reads": [[[]] + [[j + 1] for j in range(len(f["ty"]["fs"]))] for f in fields],
                     "pres": [{"dom": 0, "s": ""}]})
    return recs


def decl_key(rec):
    """Identifies the exact declaration: its rendered storage block."""
    return "decl:" + render_storage(rec["fields"], cg.TypeNamer()).replace("\n", " ")


def run(ctx):
    # 1. the design-level model check
    if ctx.quick:
        mcs = [ctx.tlc("MC_StorageLayout", "MC_StorageLayout3s", workers=4, coverage=True, xss="64m")]
    else:
        mcs = [ctx.tlc("MC_StorageLayout", "MC_StorageLayout", workers=4, coverage=True, xss="64m", timeout=2400),
               ctx.tlc("MC_StorageLayout", "MC_StorageLayout4", workers=4, xss="64m", timeout=2400)]
    for mc in mcs:
        if mc.violated:
            ctx.report("model:" + mc.violated, "StorageLayout.tla violates its own invariant " + mc.violated,
                       {"tlc": mc.counterexample()[:6000]})
    cov = mcs[0].coverage_actions()
    if not cov.get("AddField", (0, 0))[0]:
        raise ToolError("action AddField never fired: %s" % cov)
    # binding of the model: the serializer as originally written (a unit constant is one word) must be refuted
    aw_violated = "not run in the quick tier"
    if not ctx.quick:
        aw = ctx.tlc("MC_StorageLayout", "MC_StorageLayout_aswritten", workers=2, xss="64m", count=False)
        if aw.violated != "InvReadBack":
            raise ToolError("the as-written serializer (UnitWord = 1) was not refuted by TLC: %s" % aw.violated)
        aw_violated = aw.violated
    # 2. the conformance pool
    gen = ctx.tlc("MC_StorageLayout", "Gen_StorageLayout", workers=1, xss="64m", count=False)
    if gen.violated:
        raise ToolError("generator invariant violated: %s" % gen.violated)
    pool = sorted(gen.printed("REPLAY"), key=lambda r: r["id"])
    recs = (slice_for_seed(pool, ctx.seed, QUICK_N) if ctx.quick else pool) + edge_records()
    # 3. build, deploy, read
    members = [("c12d%d" % r["id"], render_contract(r)) for r in recs]
    wss = [cg.workspace("c12w%d" % i, ch) for i, ch in enumerate(cg.chunks(members, PER_WS))]
    built, failures = cg.run_workspaces(ctx, wss, procs=4)
    if failures:
        raise ToolError("workspace failed to build/run: %s" % json.dumps(failures)[:6000])
    trs = [trace_record(r, built["c12d%d" % r["id"]]) for r in recs]
    byid = {r["id"]: r for r in recs}
    # 4. trace validation; the binding self-test rides along: corrupted copies of one record must be rejected
    base = trs[len(trs) // 2]
    muts = []
    m = json.loads(json.dumps(base)); m["slots"][0]["v"][0] ^= 1; muts.append(m)          # a byte of a slot value
    m = json.loads(json.dumps(base)); m["slots"][0]["k"][31] ^= 1; muts.append(m)         # a byte of a slot key
    m = json.loads(json.dumps(base)); m["logs"][0][0] = m["logs"][0][0] + [0]; muts.append(m)   # a logged read
    if not base["fields"][0]["key"]:                                                      # (implicit key: a hash is involved)
        m = json.loads(json.dumps(base)); m["hashes"][0]["h"][0] ^= 1; muts.append(m)     # the hash of a pre-image
    for m in muts:
        m["mut"] = True
    validated, rejected = validate(ctx, trs + muts)
    mut_rej = [x for x in rejected if x[0].get("mut")]
    rejected = [x for x in rejected if not x[0].get("mut")]
    validated -= len(muts) - len(mut_rej)
    for tr, why in rejected:
        rec = byid[tr["id"]]
        ctx.report(decl_key(rec), "emitted slots / in-VM reads disagree with StorageLayout (%s)" % why,
                   {"record": tr, "source": render_contract(rec), "why": why})
    if not any(x[0] is base for x in rejected) and len(mut_rej) != len(muts):
        raise ToolError("binding self-test: %d of %d corrupted records were rejected" % (len(mut_rej), len(muts)))
    selftest = len(mut_rej)
    nreads = sum(len(p) for t in trs for p in t["reads"])
    sample = trs[0]
    return ctx.finish("model_checking", {
        "traces_validated_against_impl": validated,
        "declarations_built_and_deployed": len(recs), "pool_size": len(pool),
        "storage_fields": sum(len(t["fields"]) for t in trs), "in_vm_reads": nreads,
        "slots_compared": sum(len(t["slots"]) for t in trs),
        "aswritten_model_refuted_by": aw_violated, "binding_selftests_rejected": selftest,
        "action_coverage": cov,
        "constants": {"UnitWord": 0, "configs": [r["cfg"] for r in ctx.tlc_runs if r["cfg"].startswith("MC_")]},
        "samples": [{"id": sample["id"], "storage": render_storage(byid[sample["id"]]["fields"], cg.TypeNamer()),
                     "slots": [{"k": bytes(s["k"]).hex(), "v": bytes(s["v"]).hex()} for s in sample["slots"]][:4],
                     "logs": [[bytes(x).hex() for x in l] for l in sample["logs"]][:4]}],
    }, assumptions=[
        "SHA-256 is an uninterpreted injective function in the model (a slot address is the pair pre-image, offset: distinct hashes are assumed to be more than a field's slot count apart); the harness instantiates it with hashlib.sha256 over the spec-given pre-image",
        "explicit `in` keys are generated far apart; collisions between explicit keys are the user's choice and outside the disjointness claim",
        "types: bool u8 u16 u32 u64 u256 b256 str[N] struct enum (unit only as an enum variant payload), nested; top-level unit fields and arrays (unimplemented in the serializer) are not generated",
        "quads-based storage (experimental dynamic_storage = false, the default)",
        "the pool is finite and deterministic; VERIF_SEED selects the quick slice",
    ])


def replay(path):
    v = json.load(open(path))
    print(v.get("what"))
    print(v["replay"].get("source", ""))
    print(json.dumps({k: v["replay"]["record"][k] for k in ("slots", "logs", "outs")} if "record" in v["replay"] else v["replay"], indent=1)[:6000])
    return 0
