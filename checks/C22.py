"""C22 Build order respects dependencies — BuildOrder.tla (nondeterministic planner) + vh-order.

1. TLC model-checks the planner on every directed graph with <= N nodes (all behaviours):
   prefix respects deps, Done => IsOrder, stuck <=> cyclic.
2. TLC enumerates the graphs as replay records (all graphs <= N nodes; fixed-seed larger graphs).
3. vh-order calls forc_pkg::compilation_order on each, under several node/edge insertion orders.
4. Trace_BuildOrder.tla replays each returned order through the planner's Emit action and accepts
   an Err only for a cyclic graph.
"""
import os
from lib.common import *


def run(ctx):
    n = 3 if ctx.quick else 4
    shuffles = 3 if ctx.quick else 4
    # 1. design-level model check
    mc = ctx.tlc("BuildOrder", "MC_BuildOrder" if ctx.quick else "MC_BuildOrder4", workers=4, coverage=True)
    if mc.violated:
        ctx.report("model:" + mc.violated, "BuildOrder.tla violates its own invariant " + mc.violated,
                   {"tlc": mc.counterexample()[:4000]})
    # 2. replay records
    gen = ctx.tlc("MC_BuildOrder", "Gen_BuildOrder%d" % n, workers=1, count=False)
    recs = gen.printed("REPLAY")
    big = ctx.tlc("MC_BuildOrder", "Gen_BuildOrderBig", workers=1, tlc_seed=7, count=False, name="GenBig")
    bigrecs = big.printed("REPLAY")
    allrecs = recs + bigrecs
    inp = os.path.join(ctx.work, "graphs.ndjson")
    write_ndjson(inp, allrecs)
    # 3. real code
    outp = os.path.join(ctx.work, "orders.ndjson")
    ctx.vh("vh-order", ["--in", inp, "--out", outp, "--shuffles", shuffles])
    results = read_ndjson(outp)
    for r in results:
        if r.get("panic"):
            ctx.report("panic:%s" % r["edges"], "compilation_order panicked: %s" % r.get("msg"), r)
    results = [r for r in results if not r.get("panic")]
    # 4. trace validation, in shards so that a rejection names one record and the rest is still checked
    validated = 0
    shard = 20000
    pos = 0
    cyc = sum(1 for r in results if not r["ok"])
    while pos < len(results):
        chunk = results[pos:pos + shard]
        while chunk and len(ctx.violations) < 25:
            tp = os.path.join(ctx.work, "trace.ndjson")
            write_ndjson(tp, chunk)
            tr = ctx.tlc_trace("Trace_BuildOrder", "Trace_BuildOrder", tp, name="trace%d" % pos)
            if tr.violated is None:
                validated += len(chunk)
                break
            k = tr.first_unmatched()
            if tr.violated != "postcondition" or k is None:
                raise ToolError("trace validation failed unexpectedly: %s" % tr.violated)
            bad = chunk[k - 1]
            validated += k - 1
            ctx.report("order:%d:%s" % (bad["n"], bad["edges"]),
                       "compilation_order returned %s for a graph where the planner does not allow it"
                       % (bad["order"] if bad["ok"] else "Err"), bad)
            chunk = chunk[k:]
        pos += shard
    return ctx.finish("model_checking", {
        "traces_validated_against_impl": validated,
        "exhaustive": True,
        "graphs_enumerated": len(recs), "random_big_graphs": len(bigrecs),
        "shuffles_per_graph": shuffles, "impl_errors_cyclic": cyc,
        "constants": {"N": n, "big_nodes": "5..12", "tlc_seed_big": 7},
        "action_coverage": mc.coverage_actions(),
        "samples": results[:2] + results[-2:],
    }, assumptions=[
        "graphs are built directly as forc_pkg::Graph values (member sources); manifest loading is not involved",
        "exhaustive for all directed graphs with self-loops on <= %d nodes; larger graphs are a fixed-seed pool" % n,
    ])


def replay(path):
    import json
    v = json.load(open(path))
    print(json.dumps(v, indent=1))
    return 0
