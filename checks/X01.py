"""X01 (extension) The planning session of `forc build` -- PlanSession.tla + vh-plan.

How BuildPlan::from_lock_and_manifests turns (manifests on disk, optional Forc.lock) into (package
graph, compilation order, new lock) across a SEQUENCE of manifest edits and lock-file accidents
(path dependencies only, packages p1..pN, root p1).

1. TLC model-checks PlanSession (every session of <= MaxEnv environment actions interleaved with
   planning steps): PlannedGraphIsReachableClosure, StaleLockNeverLeaks, LockInSync/LockFixpoint,
   LockedFailsIffChanged, LockedNeverWrites, OrderRespectsDeps (BuildOrder's planner),
   CycleFailsAndKeepsLock, SummaryAgrees, NoLockEdgeSurvives, MapNeverFails,
   PlannedEdgesAreManifestEntries; PlanningTerminates (MC_PlanSession_term.cfg) and
   EveryManifestEntryPlanned (MC_PlanSession_alias.cfg) are checked alone because the transcription
   of the code violates them (findings F1, F2 of notes/X01.md).
2. TLC (Gen_PlanSession) enumerates histories (base manifests + environment actions, with or
   without a planning step in between).
3. vh-plan materialises the packages, applies every action to the real Forc.toml / Forc.lock files
   and runs the real planning step three times after each (locked, unlocked, locked).
4. Trace_PlanSession.tla replays every recorded event through PlanSession's actions.
5. Binding self-test: one recorded field is corrupted -> the trace spec must reject.
"""
import os, re, json, copy, concurrent.futures
from lib.common import *

ALIAS_KEY = "alias-dropped:fetch_deps:update_edge:two-dependency-names-for-one-package"
HANG_KEY = "hang:validate_graph:find_path_root:lock-cycle-under-edge-named-like-root"


def _gen(ctx, cfg):
    r = ctx.tlc("Gen_PlanSession", cfg, workers=1, count=False, timeout=1500)
    hs = r.printed("REPLAY")
    if not hs:
        raise ToolError("generator %s printed no histories" % cfg)
    return hs


def _run_vh(ctx, hists, tag, procs=4, watchdog_ms=8000):
    """Run vh-plan over the histories (parallel slices; a Hang ends a process: restart after it)."""
    ctx.build_vh("vh-plan")
    home = os.path.join(ctx.work, "home")
    os.makedirs(home, exist_ok=True)

    def one(k, part):
        events = []
        pos = 0
        rounds = 0
        inp = os.path.join(ctx.work, "hist-%s-%d.ndjson" % (tag, k))
        write_ndjson(inp, part)
        while pos < len(part):
            rounds += 1
            outp = os.path.join(ctx.work, "ev-%s-%d-%d.ndjson" % (tag, k, rounds))
            ctx.vh("vh-plan", ["--in", inp, "--out", outp, "--dir", os.path.join(ctx.work, "pk-%s-%d" % (tag, k)),
                               "--skip", pos, "--watchdog-ms", watchdog_ms], env={"HOME": home}, timeout=3600)
            evs = read_ndjson(outp)
            os.remove(outp)
            done = sum(1 for e in evs if e["ev"] == "Start")
            if done == 0:
                raise ToolError("vh-plan made no progress at history %d of slice %s/%d" % (pos, tag, k))
            events += evs
            pos += done
            if not (evs and evs[-1]["ev"] == "Hang") and pos < len(part):
                raise ToolError("vh-plan stopped early without a Hang event (slice %s/%d, history %d)" % (tag, k, pos))
        return events

    size = (len(hists) + procs - 1) // procs
    parts = [hists[i:i + size] for i in range(0, len(hists), size)]
    with concurrent.futures.ThreadPoolExecutor(max_workers=procs) as ex:
        res = list(ex.map(lambda kp: one(*kp), enumerate(parts)))
    return [e for part in res for e in part]


def _split_histories(events):
    hs = []
    for e in events:
        if e["ev"] == "Start":
            hs.append([])
        hs[-1].append(e)
    return hs


def _strip(e):
    e = dict(e)
    e.pop("msg", None)
    return e


class Validator:
    def __init__(self, ctx):
        self.ctx = ctx
        self.validated_events = 0
        self.validated_histories = 0
        self.hang_histories = []
        self.alias_hits = set()
        self.n = 0

    def _trace(self, hs, cfg, name):
        tp = os.path.join(self.ctx.work, "trace-%s.ndjson" % name)
        write_ndjson(tp, [_strip(e) for h in hs for e in h])
        r = self.ctx.tlc_trace("Trace_PlanSession", cfg, tp, name="trace-" + name, timeout=2400)
        return r

    def shard(self, hs, cfg="Trace_PlanSession", name=None):
        """Validate a list of histories; after a rejection report it and go on with the next history."""
        self.n += 1
        name = name or "s%d" % self.n
        rnd = 0
        while hs and len(self.ctx.violations) < 25:
            rnd += 1
            r = self._trace(hs, cfg, "%s-%d" % (name, rnd))
            for m in re.finditer(r'<<"PROPERTY-VIOLATED",\s*"EveryManifestEntryPlanned",\s*(\d+),\s*(\d+)>>', r.out):
                self.alias_hits.add((int(m.group(1)), int(m.group(2))))
            if r.violated is None:
                self.validated_events += sum(len(h) for h in hs)
                self.validated_histories += len(hs)
                return
            k = r.first_unmatched()
            if k is None:
                # an invariant / action property of PlanSession failed on a state of the real trace
                self.ctx.report("trace-property:%s" % r.violated,
                                "PlanSession property %s fails on a trace of the real code" % r.violated,
                                {"tlc": r.counterexample()[-6000:]})
                return
            # locate the history of record k
            pos = 0
            for hi, h in enumerate(hs):
                if pos + len(h) >= k:
                    break
                pos += len(h)
            bad = hs[hi][k - pos - 1]
            self.validated_events += pos
            self.validated_histories += hi
            if bad["ev"] == "Hang" and r.violated == "PlanningTerminates":
                # the trace spec followed the real code into the model's "hang" outcome and the TLA+
                # invariant PlanningTerminates fired on it
                self.ctx.report(HANG_KEY, "planning does not return (validate_graph -> find_path_root loops on a "
                                "cyclic hand-edited Forc.lock); PlanningTerminates violated on the real trace",
                                {"history": hs[hi]})
            else:
                what = "record %s of history %s is not a behaviour of PlanSession (%s)" % (
                    bad.get("ev"), bad.get("id"), r.violated)
                key = "mismatch:%s:%s:%s" % (bad.get("ev"), bad.get("a", bad.get("locked")), bad.get("out", ""))
                self.ctx.report(key, what, {"record": bad, "history": hs[hi]})
            hs = hs[hi + 1:]


def _self_test(ctx, hs, count):
    """Corrupt one recorded field of an accepted history: the trace spec must reject the record."""
    muts = []
    base = [h for h in hs if not any(e["ev"] == "Hang" for e in h)]
    # histories that have an ok plan with >= 2 nodes and an edge
    rich = [h for h in base if any(e["ev"] == "Plan" and e["out"] == "ok" and len(e["edges"]) >= 1 for e in h)]
    if not rich:
        raise ToolError("self-test: no history with a non-trivial plan")
    h0 = rich[0]

    def mutate(f):
        h = copy.deepcopy(h0)
        idx = f(h)
        return h, idx

    def pick(h, pred):
        for i, e in enumerate(h):
            if pred(e):
                return i
        raise ToolError("self-test: no record to corrupt")

    okplan = lambda e: e["ev"] == "Plan" and e["out"] == "ok" and len(e["edges"]) >= 1

    def m_order(h):
        i = pick(h, okplan); h[i]["order"] = list(reversed(h[i]["order"])); return i

    def m_edge_name(h):
        i = pick(h, okplan); h[i]["edges"][0][1] = (h[i]["edges"][0][1] + 1) % 3; return i

    def m_node(h):
        i = pick(h, okplan); h[i]["nodes"] = h[i]["nodes"][:-1]; return i

    def m_changed(h):
        i = pick(h, okplan); h[i]["text_changed"] = not h[i]["text_changed"]; return i

    def m_locked_ok(h):
        i = pick(h, lambda e: e["ev"] == "Plan" and e["locked"] and e["out"] == "err" and e["cls"] == "locked")
        j = pick(h, okplan)
        for f in ("out", "cls", "nodes", "edges", "order"):
            h[i][f] = copy.deepcopy(h[j][f])
        return i

    def m_after(h):
        i = pick(h, okplan); h[i]["after"]["edges"] = h[i]["after"]["edges"][1:]; return i

    for name, f in [("order", m_order), ("edge-name", m_edge_name), ("node-set", m_node),
                    ("text-changed", m_changed), ("locked-succeeds", m_locked_ok), ("lock-after", m_after)][:count]:
        h, idx = mutate(f)
        tp = os.path.join(ctx.work, "selftest-%s.ndjson" % name)
        write_ndjson(tp, [_strip(e) for e in h])
        r = ctx.tlc_trace("Trace_PlanSession", "Trace_PlanSession", tp, name="selftest-" + name, count=False)
        k = r.first_unmatched()
        ok = r.violated is not None and k == idx + 1
        muts.append({"mutation": name, "record": idx + 1, "rejected_at": k, "tlc": r.violated})
        if not ok:
            raise ToolError("binding self-test: corrupted field %s (record %d) was not rejected there (%s, %s)"
                            % (name, idx + 1, r.violated, k))
    return muts


def run(ctx):
    quick = ctx.quick
    # ---- 1. model checking and 2. history generation (independent TLC jobs, run side by side)
    jobs = {
        "mc": lambda: ctx.tlc("MC_PlanSession", "MC_PlanSession_q" if quick else "MC_PlanSession",
                              workers=4 if quick else 6, coverage=True, xmx="6g", timeout=3000),
        "term": lambda: ctx.tlc("MC_PlanSession", "MC_PlanSession_term", workers=2, xmx="4g", timeout=1500, name="term"),
        "alias": lambda: ctx.tlc("MC_PlanSession", "MC_PlanSession_alias", workers=2, xmx="2g", timeout=900, name="alias"),
        "gen2": lambda: _gen(ctx, "Gen_PlanSession2"),
    }
    if not quick:
        jobs["mc4"] = lambda: ctx.tlc("MC_PlanSession", "MC_PlanSession4", workers=6, xmx="6g", timeout=3000)
        jobs["gen3"] = lambda: _gen(ctx, "Gen_PlanSession3")
        jobs["gen4"] = lambda: _gen(ctx, "Gen_PlanSession4")
    with concurrent.futures.ThreadPoolExecutor(max_workers=4) as ex:
        futs = {k: ex.submit(f) for k, f in jobs.items()}
        done = {k: f.result() for k, f in futs.items()}
    mc = done["mc"]
    if mc.violated:
        ctx.report("model:" + mc.violated, "PlanSession.tla violates " + mc.violated, {"tlc": mc.counterexample()[:6000]})
    cov = mc.coverage_actions()
    needed = ["EditAddDep", "EditRemoveDep", "EditRetarget", "DeleteLock", "CorruptGarbage", "CorruptAddNode",
              "CorruptDropNode", "CorruptAddEdge", "CorruptDropEdge", "StartPlan", "ReadManifests", "LoadLock",
              "ValidateLock", "Resolve", "Emit", "OrderStuck", "OrderDone", "WriteLock"]
    silent = [a for a in needed if cov.get(a, (0, 0))[1] == 0]
    if silent:
        raise ToolError("actions never fired in the model: %s" % silent)
    if not quick and done["mc4"].violated:
        ctx.report("model4:" + done["mc4"].violated, "PlanSession.tla (N=4) violates " + done["mc4"].violated,
                   {"tlc": done["mc4"].counterexample()[:6000]})
    term, alias = done["term"], done["alias"]
    model_hangs = term.violated == "PlanningTerminates"
    if term.violated and not model_hangs:
        raise ToolError("unexpected result of MC_PlanSession_term: %s" % term.violated)
    model_alias = alias.violated == "EveryManifestEntryPlanned"
    if alias.violated and not model_alias:
        raise ToolError("unexpected result of MC_PlanSession_alias: %s" % alias.violated)

    pool2 = done["gen2"]
    if quick:
        hists = slice_for_seed(pool2, ctx.seed, 1200)
        pool3 = []
    else:
        pool3, pool4 = done["gen3"], done["gen4"]
        hists = pool2 + slice_for_seed(pool3, 0, 8000) + slice_for_seed(pool4, 0, 3000)
    for i, h in enumerate(hists):
        h["id"] = i + 1

    # ---- 3. the real code
    events = _run_vh(ctx, hists, "main", procs=4 if quick else 6)
    hs = _split_histories(events)
    if len(hs) != len(hists):
        raise ToolError("vh-plan recorded %d histories, expected %d" % (len(hs), len(hists)))
    panics = [e for e in events if e["ev"] == "Plan" and e["out"] == "panic"]
    for e in panics[:5]:
        ctx.report("panic:%s" % e.get("msg", "")[:80], "planning panicked: %s" % e.get("msg"), e)
    nplans = sum(1 for e in events if e["ev"] == "Plan")

    # ---- 4. trace validation
    v = Validator(ctx)
    hang = [h for h in hs if any(e["ev"] == "Hang" for e in h)]
    plain = [h for h in hs if not any(e["ev"] == "Hang" for e in h)]
    shard = 400 if quick else 800
    shards = [plain[i:i + shard] for i in range(0, len(plain), shard)]
    with concurrent.futures.ThreadPoolExecutor(max_workers=4 if quick else 6) as ex:
        list(ex.map(lambda ks: v.shard(ks[1], name="p%d" % ks[0]), enumerate(shards)))
    if hang:
        # the TLA+ invariant judges the first one; the rest are bound (Hang accepted iff the model hangs)
        v.shard(hang[:1], name="hang-first")
        if len(hang) > 1:
            v.shard(hang[1:], cfg="Trace_PlanSession_bind", name="hang-rest")
    if v.alias_hits:
        hid = min(v.alias_hits)[0]
        ctx.report(ALIAS_KEY, "a reachable manifest entry is not an edge of the plan (two dependency names for one package: "
                   "update_edge keeps the last name); EveryManifestEntryPlanned violated on %d real planning steps"
                   % len(v.alias_hits), {"history": [h for h in hs if h[0]["id"] == hid][0]})
    if model_hangs and not hang:
        # the model says planning can hang but no replayed history exercised it
        log("[X01] MC_PlanSession_term is violated but no replayed history hung")

    # ---- 5. binding self-test
    muts = _self_test(ctx, hs, 2 if quick else 6)

    samples = []
    for h in (plain[:1] + hang[:1]):
        samples.append([_strip(e) for e in h][:8])
    return ctx.finish("model_checking", {
        "traces_validated_against_impl": v.validated_histories,
        "events_validated": v.validated_events,
        "planning_steps_replayed": nplans,
        "histories_replayed": len(hs),
        "histories_with_hang": len(hang),
        "exhaustive": True,
        "pools": {"depth2_N3": len(pool2), "depth3_N3_coarse_view": len(pool3),
                  "depth2_N4": 0 if quick else len(pool4)},
        "constants": {"model": "N=3 MaxEnv=%d" % (2 if quick else 3) + ("" if quick else "; N=4 MaxEnv=2"),
                      "bases": 3, "trace_N": 4},
        "model_planning_terminates_violated": model_hangs,
        "model_every_manifest_entry_planned_violated": model_alias,
        "real_steps_violating_every_manifest_entry_planned": len(v.alias_hits),
        "action_coverage": {a: cov[a] for a in cov if a in needed},
        "binding_self_test": muts,
        "samples": samples,
    }, assumptions=[
        "path dependencies only, one member (root p1), library packages, implicit-std = false, offline = true",
        "dependency names are 'dx' or package names; aliases are written with `package = ...`",
        "lock accidents: deletion, unparsable text, stale package entry, dropped package entry, added/dropped dependency line",
        "planning steps are sequential (no concurrent forc processes)",
        "replayed histories: every (action, target state) pair of depth <= 2; a fixed slice of one history per "
        "reachable (manifests, lock) state of depth 3 (thorough)",
    ])


def replay(path):
    v = json.load(open(path))
    print(json.dumps(v, indent=1)[:20000])
    return 0
