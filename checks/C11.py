"""C11 Contract calls dispatch to the named method with intact arguments -- Dispatch.tla + vh-exec.

1. TLC checks, for every contract over the adversarial 12-name pool (1..5 methods containing a related pair, both
   declaration orders: 2788 contracts), that the transcribed dispatcher (generate_contract_entry: packed
   `_method_names` with substring sharing, arms grouped by length, `meq` at the arm's offset) selects exactly the
   named method for every selector tried (own names, rest of the pool, near-misses, substrings of the packed
   string); and on all call sequences of small contracts that exactly the named method's counter moves, the
   fallback's when no method is named and a fallback exists, and nothing (revert) otherwise.
2. TLC prints the deterministic conformance pool: contracts (names x order x fallback x signature pattern) with
   their call sequences (typed `abi` calls, typed calls through a wider ABI for undeclared names, low-level calls
   with hand-encoded selector and arguments).
3. Each contract is rendered (every method bumps its own storage counter, logs a snapshot of all counters, returns
   (100 + i, args..)), built by forc, deployed by forc-test, and every sequence is one #[test] run on the VM.
4. Trace_Dispatch.tla replays every executed test through Dispatch!Deploy / Dispatch!Call.
"""
import json, os
from lib.common import *
from lib import contractgen as cg

PER_WS = 25
QUICK_N = 40
MARK = 0xCA11CA1100000000


# ------------------------------------------------------------------ rendering (mechanical)
SIG = {
    "unit": ("", "u64", "%d"),
    "u64": ("x: u64", "(u64, u64)", "(%d, x)"),
    "u8bool": ("a: u8, b: bool", "(u64, u8, bool)", "(%d, a, b)"),
    "struct": ("s: P", "(u64, P)", "(%d, s)"),
    "vec": ("v: Vec<u64>", "(u64, Vec<u64>)", "(%d, v)"),
    "str": ("s: str", "(u64, str)", "(%d, s)"),
}

HELPERS = '''
fn raw_call(id: b256, sel: Bytes, data: Bytes) -> Bytes {
    call_with_function_selector(ContractId::from(id), sel, data, CallParams { coins: 0, asset_id: AssetId::from(b256::zero()), gas: 18446744073709551615 });
    let ptr = asm() { ret: raw_ptr };
    let len = asm() { retl: u64 };
    Bytes::from(raw_slice::from_parts::<u8>(ptr, len))
}
fn mk(n: u64, b: [u8; 40]) -> Bytes {
    let mut r = Bytes::new();
    let mut i = 0;
    while i < n { r.push(b[i]); i += 1; }
    r
}
'''


def arr40(bs):
    if len(bs) > 40:
        raise ToolError("byte string longer than the 40-byte literal")
    return "mk(%d, [%s])" % (len(bs), ", ".join("%du8" % b for b in list(bs) + [0] * (40 - len(bs))))


def int_of(v):
    return int.from_bytes(bytes(v["b"]), "little")


def render_arg(v, pre, uid):
    """Returns the argument expression; may append `let` statements to pre."""
    k = v["k"]
    if k == "i":
        return "%d%s" % (int_of(v), v["t"])
    if k == "b":
        return "true" if v["v"] else "false"
    if k == "a":       # the struct P { f1: u8, f2: u64, f3: bool }
        es = v["es"]
        return "P { f1: %s, f2: %s, f3: %s }" % tuple(render_arg(e, pre, uid) for e in es)
    if k == "vec":
        name = "v%d" % uid
        pre.append("let mut %s: Vec<u64> = Vec::new();" % name)
        for e in v["es"]:
            pre.append("%s.push(%s);" % (name, render_arg(e, pre, uid)))
        return name
    if k == "ss":
        return '"%s"' % bytes(v["b"]).decode("ascii")
    raise ToolError("unknown argument value %r" % v)


def render_contract(rec):
    ms = rec["methods"]
    n = len(ms)
    counters = ["c%d" % (i + 1) for i in range(n)] + ["cfb"]
    out = ["contract;", "use std::bytes::Bytes;", "use std::low_level_call::{call_with_function_selector, CallParams};",
           "struct P { f1: u8, f2: u64, f3: bool }", "abi Decl {"]
    for m in ms:
        params, ret, _ = SIG[m["sig"]]
        out.append("    #[storage(read, write)] fn %s(%s) -> %s;" % (m["name"], params, ret))
    out.append("}")
    out.append("abi Wide {")
    for w in rec["wide"]:
        out.append("    fn %s() -> u64;" % w)
    out.append("}")
    out.append("storage { %s }" % ", ".join("%s: u64 = 0" % c for c in counters))
    out.append("#[storage(read)] fn snap() { log((%s)); }" % ", ".join("storage.%s.read()" % c for c in counters))
    out.append("impl Decl for Contract {")
    for i, m in enumerate(ms):
        params, ret, echo = SIG[m["sig"]]
        c = counters[i]
        out.append("    #[storage(read, write)] fn %s(%s) -> %s { storage.%s.write(storage.%s.read() + 1); snap(); %s }"
                   % (m["name"], params, ret, c, c, echo % (101 + i)))
    out.append("}")
    if rec["fallback"]:
        out.append("#[fallback]\n#[storage(read, write)]\nfn fallback() -> u64 { storage.cfb.write(storage.cfb.read() + 1); snap(); 4095 }")
    out.append(HELPERS)
    for t, calls in enumerate(rec["tests"]):
        body = ["let c = abi(Decl, CONTRACT_ID);", "let w = abi(Wide, CONTRACT_ID);"]
        for j, call in enumerate(calls):
            body.append("log(%du64);" % (MARK + j + 1))
            if call["kind"] == "typed":
                pre = []
                args = ", ".join(render_arg(a, pre, j) for a in call["args"])
                body += pre
                body.append("log(c.%s(%s));" % (call["sel"], args))
            elif call["kind"] == "wide":
                body.append("log(w.%s());" % call["sel"])
            else:
                body.append("log(raw_call(CONTRACT_ID, %s, %s));" % (arr40(call["blob"]), arr40(call["argbytes"])))
        out.append("#[test]\nfn t%d() {\n    %s\n}" % (t, "\n    ".join(body)))
    return "\n".join(out) + "\n"


def split_obs(logs, ncalls):
    """Logs between consecutive markers (mechanical split; the marker of call j is the 8 bytes of MARK + j)."""
    marks = [list((MARK + j + 1).to_bytes(8, "big")) for j in range(ncalls)]
    obs, cur, nxt = [], None, 0
    for lg in logs:
        if nxt < ncalls and lg == marks[nxt]:
            if cur is not None:
                obs.append(cur)
            cur, nxt = [], nxt + 1
        elif cur is not None:
            cur.append(lg)
    if cur is not None:
        obs.append(cur)
    return obs


def trace_records(rec, member):
    out = []
    for t, calls in enumerate(rec["tests"]):
        o = member["tests"].get("t%d" % t)
        if o is None:
            raise ToolError("test t%d of contract %s did not run" % (t, rec["id"]))
        out.append({"id": rec["id"], "test": t, "methods": rec["methods"], "fallback": rec["fallback"],
                    "calls": [{"sel": c["sel"], "kind": c["kind"], "args": c["args"]} for c in calls],
                    "obs": split_obs(o["logs"], len(calls)), "out": o["out"], "code": o["code"]})
    return out


def test_key(rec, t):
    return "methods=%s;fallback=%s;calls=%s" % (
        ",".join("%s:%s" % (m["name"], m["sig"]) for m in rec["methods"]), rec["fallback"],
        ",".join("%s:%s" % (c["kind"], c["sel"]) for c in rec["tests"][t]))


def run(ctx):
    # 1. model checking
    st = ctx.tlc("MC_Dispatch", "MC_Dispatch_static_q" if ctx.quick else "MC_Dispatch_static", workers=4, xss="64m", timeout=2400)
    mc = ctx.tlc("MC_Dispatch", "MC_Dispatch_q" if ctx.quick else "MC_Dispatch", workers=4, coverage=True, xss="64m", timeout=2400)
    for r in (st, mc):
        if r.violated:
            ctx.report("model:" + r.violated, "Dispatch.tla violates its own invariant " + r.violated,
                       {"tlc": r.counterexample()[:6000]})
    cov = mc.coverage_actions()
    if not cov.get("Next", (0, 0))[0]:       # Next = bounded Call(sel, args)
        raise ToolError("action Call never fired: %s" % cov)
    # binding of the model: a dispatcher that compares only the arm's length-prefix (no length test) is refuted
    mut_violated = "not run in the quick tier"
    if not ctx.quick:
        mut = ctx.tlc("MC_Dispatch", "MC_Dispatch_mut_nolen", workers=2, xss="64m", count=False)
        if mut.violated != "InvMutExact":
            raise ToolError("the mutant dispatcher (no length comparison) was not refuted by TLC: %s" % mut.violated)
        mut_violated = mut.violated
    # 2. conformance pool
    gen = ctx.tlc("MC_Dispatch", "Gen_Dispatch_q" if ctx.quick else "Gen_Dispatch", workers=1, xss="64m", count=False)
    # (the quick pool -- every 15th mask -- is a subset of the thorough pool -- every 3rd)
    pool = sorted(gen.printed("REPLAY"), key=lambda r: r["id"])
    recs = slice_for_seed(pool, ctx.seed, QUICK_N) if ctx.quick else pool
    # 3. build and run
    members = [("c11m%d" % r["id"], render_contract(r)) for r in recs]
    wss = [cg.workspace("c11w%d" % i, ch, want=()) for i, ch in enumerate(cg.chunks(members, PER_WS))]
    built, failures = cg.run_workspaces(ctx, wss, procs=4)
    if failures:
        raise ToolError("workspace failed to build/run: %s" % json.dumps(failures)[:6000])
    byid = {r["id"]: r for r in recs}
    trs = [t for r in recs for t in trace_records(r, built["c11m%d" % r["id"]])]
    # 4. trace validation; the binding self-test rides along: corrupted copies of one record must be rejected
    cand = [t for t in trs if t["out"] == "return" and len(t["calls"]) >= 2]
    base = cand[len(cand) // 2]
    muts = []
    m = json.loads(json.dumps(base)); m["obs"][1][0][7] ^= 1; muts.append(m)              # a counter in a snapshot
    m = json.loads(json.dumps(base)); m["obs"][0][1][-1] ^= 1; muts.append(m)             # a returned byte
    m = json.loads(json.dumps(base)); m["out"] = "revert"; muts.append(m)                 # the outcome
    m = json.loads(json.dumps(base)); m["calls"][0], m["calls"][1] = m["calls"][1], m["calls"][0]
    if m["calls"][0] != m["calls"][1]:
        muts.append(m)                                                                    # the order of calls
    for m in muts:
        m["mut"] = True
    validated, rejected = cg.validate_all(ctx, "Trace_Dispatch", "Trace_Dispatch", trs + muts, shard=700, par=4)
    mut_rej = [x for x in rejected if x[0].get("mut")]
    rejected = [x for x in rejected if not x[0].get("mut")]
    validated -= len(muts) - len(mut_rej)
    for tr, why in rejected:
        rec = byid[tr["id"]]
        ctx.report(test_key(rec, tr["test"]), "contract call sequence disagrees with Dispatch.tla",
                   {"record": tr, "source": render_contract(rec)})
    if not any(x[0] is base for x in rejected) and len(mut_rej) != len(muts):
        raise ToolError("binding self-test: %d of %d corrupted records were rejected" % (len(mut_rej), len(muts)))
    selftest = len(mut_rej)
    ncalls = sum(len(t["calls"]) for t in trs)
    return ctx.finish("model_checking", {
        "traces_validated_against_impl": validated,
        "contracts_built_and_deployed": len(recs), "pool_size": len(pool), "tests_run": len(trs), "calls": ncalls,
        "calls_by_kind": {k: sum(1 for t in trs for c in t["calls"] if c["kind"] == k) for k in ("typed", "wide", "raw")},
        "tests_reverted": sum(1 for t in trs if t["out"] == "revert"),
        "mutant_model_refuted_by": mut_violated, "binding_selftests_rejected": selftest,
        "action_coverage": cov,
        "samples": [{"contract": test_key(byid[trs[0]["id"]], 0), "obs": [[bytes(x).hex() for x in o] for o in trs[0]["obs"]], "out": trs[0]["out"]},
                    {"contract": test_key(byid[trs[-1]["id"]], trs[-1]["test"]), "obs": [[bytes(x).hex() for x in o] for o in trs[-1]["obs"]], "out": trs[-1]["out"]}],
    }, assumptions=[
        "new encoding (the default): the selector is passed as 8 bytes of length followed by the name; arguments as the canonical encoding of their tuple",
        "argument and return types come from six signature shapes (unit, u64, (u8, bool), struct, Vec<u64>, str); arbitrary types are C09/C10's subject",
        "a revert ends the transaction: after an unknown selector without fallback nothing else is observed; the revert code is recorded, not compared",
        "returned bytes are observed by the caller (re-encoded decoded value for typed calls, $ret/$retl bytes for low-level calls): forc-test keeps only Log/LogData receipts",
        "the pool is finite and deterministic; VERIF_SEED selects the quick slice",
    ])


def replay(path):
    v = json.load(open(path))
    print(v.get("what"), v.get("key"))
    print(v["replay"].get("source", ""))
    print(json.dumps(v["replay"].get("record"), indent=1)[:6000])
    return 0
