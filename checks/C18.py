"""C18 Formatting is idempotent — FmtTransducer.tla (Fmt / Idempotent) + vh-fmt.

1. Pool: every .sw file under /repo (read in place) x configurations, plus TLC-enumerated
   comment / blank-line insertions at the token boundaries of the seed files (Gen_Fmt.tla).
2. vh-fmt formats each input, then formats the output again (fresh Formatter, same configuration),
   under catch_unwind in watchdog-guarded child processes; it records hashes and outcomes only.
3. Trace_Fmt.tla (TraceSpec18) replays every event: Fmt(cfg, in, out), Fmt(cfg, out, out2) and
   accepts it iff the second run returned a text and the invariant Idempotent holds. Inputs the
   formatter does not accept are skipped by the spec (TrSkip18).
"""
import os, json
from lib.common import *
from checks._fmt_common import *


def build_jobs(ctx):
    files = repo_sw_files()
    seeds = seed_files()
    jobs = []
    if ctx.quick:
        fsel = slice_for_seed(files, ctx.seed, 350)
        cfgs = ["default", "w40", "tabs"]
    else:
        fsel = files
        cfgs = CFGS_ALL_FILES
    for c in cfgs:
        for f in fsel:
            jobs.append({"cfg": c, "file": f})
    for c in cfgs + CFGS_SEEDS_ONLY:
        for f in (seeds[:CRLF_SEEDS] if c == "crlf" else seeds):
            jobs.append({"cfg": c, "file": f})
    vseeds = variant_seeds(ctx)
    vjobs, n1, n2 = enumerate_variants(ctx, vseeds, pairs_sim=0 if ctx.quick else 1)
    if ctx.quick:
        vjobs = slice_for_seed(vjobs, ctx.seed, 1500)
    for c in (["default"] if ctx.quick else VARIANT_CFGS):
        for j in vjobs:
            jobs.append(dict(j, cfg=c))
    for i, j in enumerate(jobs):
        j["id"] = i
    return jobs, {"repo_files": len(fsel), "repo_files_total": len(files), "configs": cfgs,
                  "seed_files": len(seeds), "variant_seeds": len(vseeds),
                  "single_insertions_enumerated": n1, "pair_insertions_enumerated": n2,
                  "variants_run": len(vjobs)}


def run(ctx):
    jobs, pool = build_jobs(ctx)
    evs = run_vh_fmt(ctx, jobs, tokens=False, name="c18")
    rejected, nshards = validate(ctx, evs, "Trace_Fmt18", tokens=False, max_events=4000, name="t18")
    byid = {e["id"]: e for e in evs}
    for rid in sorted(rejected):
        e = byid[rid]
        key = job_key(e["job"])
        if e.get("status2") != "ok":
            what = "formatting the formatter's own output fails (%s: %s)" % (e.get("status2"), (e.get("msg2") or "")[:120])
        else:
            what = "format(format(x)) != format(x)"
        ctx.report(key, "%s [%s]" % (what, key), {"job": e["job"], "event": {k: v for k, v in e.items() if k != "job"}})
    st = {}
    for e in evs:
        st[e.get("status")] = st.get(e.get("status"), 0) + 1
    accepted = [e for e in evs if e.get("status") == "ok"]
    refused_parseable = [job_key(e["job"]) for e in evs if e.get("status") not in ("ok",) and e.get("inparses")]
    distinct = len({(e["cfg"], e["inh"]) for e in accepted})
    # binding self-test (thorough): corrupt one recorded hash -> the trace spec must reject exactly it
    selftest = None
    if not ctx.quick and accepted:
        good = [e for e in accepted if e["id"] not in set(rejected)][:50]
        if good:
            import copy
            mut = copy.deepcopy(good)
            mut[7 % len(mut)]["out2h"] = "0000000000000000"
            rej2, _ = validate(ctx, mut, "Trace_Fmt18", tokens=False, max_events=4000, name="t18self")
            selftest = (rej2 == [mut[7 % len(mut)]["id"]])
            if not selftest:
                raise ToolError("binding self-test failed: corrupted event not rejected (%s)" % rej2)
    return ctx.finish("exploration", {
        "evaluations": len(evs),
        "distinct_nontrivial": distinct,
        "rule": "Trace_Fmt.tla/TraceSpec18: Fmt(cfg,in,out); Fmt(cfg,out,out2) must return a text; invariant "
                "Idempotent (done[cfg,done[cfg,x]] = done[cfg,x]); inputs the formatter rejects are skipped",
        "statuses": st,
        "accepted_sources": len(accepted),
        "events_rejected_by_spec": len(rejected),
        "formatter_refused_parseable_source": len(refused_parseable),
        "formatter_refused_parseable_source_samples": refused_parseable[:10],
        "pool": pool,
        "trace_shards": nshards,
        "binding_selftest_corrupted_event_rejected": selftest,
        "samples": [{"key": job_key(e["job"]), "inh": e["inh"], "outh": e["outh"], "out2h": e["out2h"]}
                    for e in accepted[:2] + accepted[-2:]],
    }, assumptions=[
        "the model is a one-line invariant over recorded runs (thin, DESIGN section 7): TLC decides nothing "
        "beyond it; the value is the enumerated pool",
        "texts are compared by SHA-256 prefix (64 bit)",
        "each run uses a fresh Formatter (Formatter::removed_spans is never cleared between runs of one instance)",
        "newline_style=Windows and field_alignment are exercised on the seed files only (see notes/C18.md)",
        "a formatter panic / internal error on a parseable source is counted (formatter_refused_parseable_source) "
        "but is not a C18 violation: the property quantifies over sources the formatter accepts",
    ])


def replay(path):
    import subprocess
    v = json.load(open(path))
    job = v["replay"]["job"]
    tmp = path + ".job.json"
    with open(tmp, "w") as f:
        f.write(json.dumps(job) + "\n")
    exe = os.path.join(VH, "target", "release", "vh-fmt")
    p = subprocess.run([exe, "--show", "--in", tmp], stdout=subprocess.PIPE, text=True)
    print(p.stdout)
    print("expected by FmtTransducer.Idempotent: output2 == output; recorded:",
          json.dumps({k: v["replay"]["event"].get(k) for k in ("status", "outh", "status2", "out2h")}))
    return 0
