"""C29 Unit tests run isolated and report exactly their outcome -- ForcTest.tla + vh-forctest.

1. TLC model-checks the runner specification (every suite of the small pool, every name filter, every
   interleaving of up to 2/3 runner threads): Isolation, OwnLogs, ExactOutcome, ExactReport, OnlySelected,
   OrderIndependent; and, as anti-vacuity, that the shared-storage reading violates Isolation.
2. TLC enumerates the suite pools (script, library, contract packages) as REPLAY records.
3. lib/forctestgen.py concatenates suites into packages (two declaration/name orders), vh-forctest builds each
   package once and runs it through forc_test with 1, 4 and 16 runners and through name filters.
4. Trace_ForcTest.tla replays every reported TestResult as Start;Finish of the specification and decides state,
   revert code, logs, reported `passed`, extracted pass condition, and that exactly the selected tests ran.
"""
import json, os, re, time
from concurrent.futures import ThreadPoolExecutor
from lib.common import *
from lib import forctestgen as ftg

PTYPES = ["contract", "script", "library"]


def _pool(ctx, ptype):
    r = ctx.tlc("MC_ForcTest", "Gen_ForcTest_" + ptype, workers=1, name="gen-" + ptype, count=False, timeout=1800)
    if r.violated:
        ctx.report("model:pool:%s:%s" % (ptype, r.violated), "ForcTest pool violates %s" % r.violated, {"tlc": r.counterexample()[:3000]})
    return r.printed("REPLAY")


def _validate_shard(ctx, idx, recs):
    """One TLC run decides every reported result of the shard; results that are not the specification's are
    printed by the trace spec (REJECTED ...) and skipped. Returns (validated results, [(record, k, expected)])"""
    if not recs:
        return 0, []
    tp = os.path.join(ctx.work, "trace-%d.ndjson" % idx)
    write_ndjson(tp, recs)
    tr = ctx.tlc_trace("Trace_ForcTest", "Trace_ForcTest", tp, name="trace-%d" % idx, timeout=5400, count=False)
    os.remove(tp)
    total = sum(len(r["results"]) for r in recs)
    rej = []
    for m in re.finditer(r'<<"REJECTED", (\d+), (\d+), "([^"]*)", "(.*)">>', tr.out):
        l, k = int(m.group(1)), int(m.group(2))
        try:
            expected = json.loads(m.group(4).replace('\\"', '"').replace("\\\\", "\\"))
        except Exception:
            expected = m.group(4)
        rej.append((recs[l - 1], k, expected))
    m = re.search(r'<<"NOT-ACCEPTED", "consumed", (\d+), "of", (\d+), "rejected", (\d+)>>', tr.out)
    if tr.violated is None and not rej:
        return total, []
    if tr.violated != "postcondition" or not m or int(m.group(1)) != len(recs) or int(m.group(3)) != len(rej):
        raise ToolError("Trace_ForcTest failed unexpectedly (%s); see work/%s/tlc-trace-%d.out" % (tr.violated, ctx.pid, idx))
    return total - sum(1 for r, k, e in rej if k <= len(r["results"])), rej


def validate(ctx, recs, shard=60, par=4):
    shards = [recs[i:i + shard] for i in range(0, len(recs), shard)]
    with ThreadPoolExecutor(max_workers=par) as ex:
        res = list(ex.map(lambda a: _validate_shard(ctx, a[0], a[1]), enumerate(shards)))
    return sum(r[0] for r in res), [x for r in res for x in r[1]]


def finding_key(rec, k):
    if k <= len(rec["results"]):
        ev = rec["results"][k - 1]
        t = next((x for x in rec["suite"] if x["name"] == ev["test"]), None)
        if t is None:
            return "unknown-test:%s" % ev["test"]
        return "result:%s:%s:%s/%s:%s/%s:runners=%d:filter=%s" % (rec["ptype"], t["beh"], t["key"], t["code"], t["exp"], t["expcode"],
                                                                 rec["runners"], "yes" if rec["filter"] else "no")
    return "selection:%s:filter=%s" % (rec["ptype"], rec["filter"])


def run(ctx):
    quick = ctx.quick
    ptypes = [PTYPES[ctx.seed % 3]] if quick else PTYPES
    # ---- 1. the design, 2. the pools (TLC runs side by side: 4 + 2 + 1 workers at most)
    with ThreadPoolExecutor(max_workers=3) as ex:
        f_mc = ex.submit(lambda: ctx.tlc("MC_ForcTest", "MC_ForcTest" if quick else "MC_ForcTest_r3", workers=2 if quick else 4,
                                         coverage=True, timeout=3000))
        f_sh = ex.submit(lambda: ctx.tlc("MC_ForcTest", "MC_ForcTest_shared", workers=1, count=False, name="shared"))
        f_pools = [ex.submit(_pool, ctx, p) for p in ptypes]
        mc, sh = f_mc.result(), f_sh.result()
        pools = {p: f.result() for p, f in zip(ptypes, f_pools)}
    if mc.violated:
        ctx.report("model:" + mc.violated, "ForcTest.tla violates its own invariant " + mc.violated, {"tlc": mc.counterexample()[:4000]})
    if sh.violated != "Isolation":
        raise ToolError("anti-vacuity failed: the shared-storage reading does not violate Isolation (%s)" % sh.violated)
    # ---- 3. packages (each in two declaration/name orders, adjacent in the list)
    pkgs = []
    for p in ptypes:
        pkgs += ftg.assemble(pools[p], p, "f")
    npk = len(pkgs)
    if quick:
        pairs = [pkgs[i:i + 2] for i in range(0, len(pkgs), 2)]
        pkgs = [x for pr in slice_for_seed(pairs, ctx.seed, 2) for x in pr]
    res = ftg.execute(ctx, pkgs, procs=4)
    recs, failures = ftg.trace_records(pkgs, res)
    for f in failures:
        ctx.report("build:" + f["pkg"], "generated package %s did not build/run: %s" % (f["pkg"], f["detail"][:400]), f)
    # ---- 4. the decision
    validated, rej = validate(ctx, recs)
    for rec, k, expected in rej:
        ev = rec["results"][k - 1] if k <= len(rec["results"]) else None
        ctx.report(finding_key(rec, k),
                   "%s: forc_test result %s differs from ForcTest.tla" % (rec["id"], (ev or {}).get("test", "<end of run>")),
                   {"package": rec["pkg"], "ptype": rec["ptype"], "runners": rec["runners"], "filter": rec["filter"],
                    "reported": ev, "model_expected": expected,
                    "test_source": ftg.render(rec["ptype"], [t for t in rec["suite"] if ev and t["name"] == ev["test"]])})
    # binding self-test: flip one reported `passed`, swap logs of two tests -> the trace spec must reject both
    selftest = None
    if not quick and recs:
        base = next((r for r in recs if len(r["results"]) > 3 and not r["filter"]), None)
        if base is not None:
            a = json.loads(json.dumps(base)); a["id"] += "~flip"; a["results"][1]["passed"] = not a["results"][1]["passed"]
            b = json.loads(json.dumps(base)); b["id"] += "~drop"; b["results"] = b["results"][:-1]
            c = json.loads(json.dumps(base)); c["id"] += "~leak"
            w = next((i for i, x in enumerate(c["results"]) if x["logs"]), 0)
            c["results"][(w + 1) % len(c["results"])]["logs"] = c["results"][w]["logs"]
            _, rj = _validate_shard(ctx, 9000, [a, b, c])
            ids = {x[0]["id"] for x in rj}
            selftest = {"flipped_passed_rejected": a["id"] in ids, "dropped_result_rejected": b["id"] in ids, "foreign_log_rejected": c["id"] in ids}
            if not all(selftest.values()):
                raise ToolError("binding self-test failed: %s" % selftest)
    nres = sum(len(r["results"]) for r in recs)
    return ctx.finish("model_checking", {
        "traces_validated_against_impl": validated,
        "exhaustive": True,
        "suites_enumerated": {p: len(pools[p]) for p in ptypes}, "packages_total": npk, "packages_run": len(pkgs),
        "runs": len(recs), "test_results_checked": nres, "rejections": len(rej), "build_or_run_failures": len(failures),
        "runner_counts": [1, 4, 16], "action_coverage": mc.coverage_actions(),
        "anti_vacuity": {"shared_storage_reading_violates": sh.violated},
        "binding_selftest": selftest,
        "samples": [{"id": r["id"], "runners": r["runners"], "filter": r["filter"], "results": r["results"][:3]} for r in recs[:2]],
    }, assumptions=[
        "tests are run through the forc_test library API (BuiltTests::run with TestRunnerCount::Manual and TestFilter), the code path of the `forc test` command; the CLI's textual report is not parsed",
        "VM panics are reported by forc-test as Revert(0) (execute.rs maps an interpreter error to ProgramState::Revert(0)); pinned in DESIGN Appendix C",
        "each generated package is itself one suite (the concatenation of enumerated suites), so storage or log leakage between any two tests of a package is visible to the reads / log checks",
        "pools are finite and deterministic (TLC enumeration); VERIF_SEED selects the quick slice of packages",
    ])


def replay(path):
    v = json.load(open(path))
    print(json.dumps(v, indent=1)[:6000])
    return 0
