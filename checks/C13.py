"""C13 Configurables patched at the reported offsets are observed -- DataSection.tla + vh-config.

1. TLC model-checks DataSection (the compiler's data-section layout as a function + the SDK's Patch): for every
   sequence of <= 3 configurables over 10 types of sizes 0,1,2,3,8,9,10,12, every shape of preceding data, both
   code parities, every victim and replacement value: regions pairwise disjoint, inside the data section and after
   the non-configurable entries, prelude word = first configurable, every configurable is observed with its
   current value after a patch (victim: new value, others: unchanged), nothing outside the regions changes.
2. TLC (MC_DataSection, Gen_DataSection.cfg, fixed seed) enumerates the conformance pool: configurable sets with
   defaults, and per set the runs (unpatched, every (victim, replacement value), double patches) with the
   canonical bytes to write.
3. lib/abigen renders each set as a script whose main logs every configurable; vh-config builds it (debug, and
   release for every third set), reads `configurables[].offset` from the JSON ABI, patches a copy of the
   bytecode per run and executes it on fuel-vm as a script transaction.
4. Trace_DataSection replays every build through the model with the REAL table and bytes and decides: ABI lists
   each configurable once with the declared type, regions disjoint / inside the bytecode / not before the
   prelude word's target, the bytes at each offset decode to the default, and every run logs exactly the values
   the model says the program observes.
"""
import json, os
from lib.common import *
from lib import abigen

QUICK_BUILDS = 5


def gen_pool(ctx):
    gen = ctx.tlc("MC_DataSection", "Gen_DataSection", workers=1, tlc_seed=13, count=False, xss="64m", timeout=1200)
    recs = gen.printed("REPLAY")
    if len(recs) < 20:
        raise ToolError("generator produced only %d builds" % len(recs))
    recs.sort(key=lambda r: json.dumps([c["t"] for c in r["cfgs"]], sort_keys=True))
    for i, r in enumerate(recs):
        r["id"] = "cs%02d" % i
    return recs


def packages(recs):
    pkgs = []
    for i, r in enumerate(recs):
        profiles = ["debug"] + (["release"] if i % 3 == 0 else [])
        for prof in profiles:
            runs = []
            for k, ws in enumerate(r["runs"]):
                runs.append({"rid": "r%d" % k, "writes": [{"name": r["cfgs"][w["i"] - 1]["name"], "bytes": w["enc"]} for w in ws]})
            pkgs.append({"id": "%s%s" % (r["id"], prof[0]), "rec": r["id"], "profile": prof,
                         # every second script also uses constants that do not fit a register (pointer words in the data section)
                         "files": {"src/main.sw": abigen.config_script(r["cfgs"], big_consts=(i % 2 == 1))},
                         "want": ["abi", "bytecode", "diag"], "runs": runs})
    return pkgs


def trace_record(r, pkg, res):
    b = res["built"]
    view = abigen.AbiView(b["abi"])
    abi = [{"name": c["name"], "off": c["offset"], "ty": view.concrete_term(c["concreteTypeId"])}
           for c in (b["abi"].get("configurables") or [])]
    bc = b["bytecode"]
    base = min([a["off"] for a in abi], default=len(bc))
    runs = []
    for k, ws in enumerate(r["runs"]):
        ev = res["runs"].get("r%d" % k)
        if ev is None:
            raise ToolError("no Run event for %s r%d" % (pkg["id"], k))
        o = abigen.observe_run(ev)
        if ev.get("unknown") or ev.get("oob"):
            o["out"] = "unpatchable"
        runs.append({"writes": [{"i": w["i"], "v": w["v"]} for w in ws], "logs": o["logs"], "out": o["out"]})
    return {"ev": "Build", "id": pkg["id"], "profile": pkg["profile"],
            "cfgs": [{"name": c["name"], "t": c["t"], "dflt": c["dflt"], "len": c["len"]} for c in r["cfgs"]],
            "abi": abi, "blen": len(bc), "prelude": b["prelude_word"], "base": base, "tail": bc[base:], "runs": runs}


def validate(ctx, trace, name="dstrace"):
    """Trace_DataSection decides every build table and every run in one pass: (#runs accepted, rejections)."""
    ok, rej = abigen.validate_trace(ctx, "Trace_DataSection", "Trace_DataSection", trace, name, shard=16, par=4)
    out = []
    for rj in rej:
        bad, k = rj["rec"], rj["run"]
        out.append({"id": bad["id"], "profile": bad["profile"], "run": k, "failed": rj["failed"], "expected": rj["expected"],
                    "cfgs": [(c["name"], c["t"]) for c in bad["cfgs"]], "abi": bad["abi"],
                    "observed": bad["runs"][k - 1] if k else None})
    nruns = sum(len(t["runs"]) for t in trace)
    skipped = sum(len(t["runs"]) for t in trace if any(o["id"] == t["id"] and o["profile"] == t["profile"] and o["run"] == 0 for o in out))
    return nruns - skipped - sum(1 for o in out if o["run"]), out


def run(ctx):
    # 1. design-level model check
    if ctx.quick:
        mcs = [ctx.tlc("MC_DataSection", "MC_DataSection_q", workers=4, coverage=True, xss="64m")]
    else:
        mcs = [ctx.tlc("MC_DataSection", "MC_DataSection", workers=4, coverage=True, xss="64m", timeout=3000),
               ctx.tlc("MC_DataSection", "MC_DataSection2", workers=4, xss="64m", timeout=3000)]
    for mc in mcs:
        if mc.violated:
            ctx.report("model:" + mc.violated, "DataSection.tla violates its own invariant " + mc.violated, {"tlc": mc.counterexample()[:6000]})
    cov = mcs[0].coverage_actions()
    if not ctx.violations and (cov.get("MCNext", (0, 0))[0] == 0):
        raise ToolError("vacuous model check: the Patch action never fired (%s)" % cov)
    # 2. pool
    recs = gen_pool(ctx)
    chosen = slice_for_seed(recs, ctx.seed, QUICK_BUILDS) if ctx.quick else recs
    pkgs = packages(chosen)
    if ctx.quick:
        pkgs = [p for p in pkgs if p["profile"] == "debug"] + [p for p in pkgs if p["profile"] == "release"][:1]
    by_rec = {r["id"]: r for r in chosen}
    # 3. real code
    res = abigen.run_config_packages(ctx, [{k: v for k, v in p.items() if k != "rec"} for p in pkgs], procs=6)
    trace = []
    for p in pkgs:
        b = res[p["id"]]["built"]
        if b is None or not b.get("ok"):
            d = (b or {}).get("diag") or ""
            errs = [x.strip()[-500:] for x in d.split("____") if x.strip().startswith("error")]
            ctx.report("build:%s" % json.dumps([c["t"] for c in by_rec[p["rec"]]["cfgs"]], sort_keys=True)[:300],
                       "a script with valid configurables does not build (%s): %s %s" % (p["profile"], (b or {}).get("panic") or (b or {}).get("err"), errs[:1]),
                       {"package": p["id"], "source": p["files"]["src/main.sw"], "built": {k: v for k, v in (b or {}).items() if k not in ("bytecode", "abi")}})
            continue
        trace.append(trace_record(by_rec[p["rec"]], p, res[p["id"]]))
    # 4. the model decides
    validated, rej = validate(ctx, trace)
    for rj in rej:
        what = ("configurable table of the ABI violates %s" % rj["failed"]) if rj["run"] == 0 else \
               ("patched run observes other values than the model (%s)" % rj["failed"])
        ctx.report("cfg:%s:%s:run%d:%s" % (rj["id"], rj["profile"], rj["run"], rj["failed"]), what, rj)
    # binding self-test: corrupt one recorded byte of a log / shift one offset -> must be rejected
    selftest = None
    if trace and not ctx.violations and not ctx.quick:
        import copy
        t1 = copy.deepcopy(next(t for t in trace if len(t["cfgs"]) >= 2 and any(len(c["t"]["es"]) or c["len"] for c in t["cfgs"])))
        j = next(i for i, lg in enumerate(t1["runs"][1]["logs"]) if lg)
        t1["runs"][1]["logs"][j][0] ^= 1
        t2 = copy.deepcopy(next(t for t in trace if len(t["cfgs"]) >= 2))
        t2["abi"][0]["off"] += 8
        n1, r1 = validate(ctx, [t1], name="selftest1")
        n2, r2 = validate(ctx, [t2], name="selftest2")
        selftest = {"corrupted_log_byte_rejected": bool(r1), "shifted_offset_rejected": bool(r2)}
        if not r1 or not r2:
            raise ToolError("binding self-test failed: corrupted trace accepted (%s)" % selftest)
    nruns = sum(len(t["runs"]) for t in trace)
    sample = trace[len(trace) // 2] if trace else None
    return ctx.finish("model_checking", {
        "traces_validated_against_impl": validated,
        "builds": len(trace), "runs_executed": nruns, "patched_runs": sum(1 for t in trace for r in t["runs"] if r["writes"]),
        "configurables_total": sum(len(t["cfgs"]) for t in trace),
        "profiles": sorted({t["profile"] for t in trace}),
        "pool": {"builds_in_pool": len(recs), "tlc_seed": 13, "slice": [r["id"] for r in chosen] if ctx.quick else "all"},
        "constants": {"model": "MC_DataSection_q.cfg" if ctx.quick else "MC_DataSection.cfg + MC_DataSection2.cfg"},
        "action_coverage": cov, "binding_selftest": selftest,
        "samples": [{"id": sample["id"], "cfgs": [(c["name"], c["t"]) for c in sample["cfgs"]],
                     "abi": [(a["name"], a["off"]) for a in sample["abi"]],
                     "run": sample["runs"][min(1, len(sample["runs"]) - 1)]}] if sample else [],
    }, assumptions=[
        "a program observes a configurable through `log(NAME)` in main, run as a script transaction with empty script data (vh-config; as the e2e harness's runs_in_vm)",
        "a patch writes exactly the canonical encoding EncT(t, v) (AbiCodec.tla) at the reported offset, as the SDKs do; for enums shorter encodings leave the rest of the reserved entry untouched",
        "configurable types are the static ABI types (ints, bool, b256, u256, str[N], unit, tuples, structs, enums, arrays, Option, Result); str / Vec / Bytes / String cannot be configurables",
        "pool: 10 pair-cover sets of 20 configurables (every ordered pair of 10 model types adjacent), 6 singletons, 24 fixed-seed sets of 3..6 over 28 types, one set of 13, the empty set; debug, plus release for every third set",
    ])


def replay(path):
    v = json.load(open(path))
    print(json.dumps(v, indent=1)[:8000])
    return 0
