"""Shared orchestration for C18 / C19 (owned by the C16/C18/C19 builder). Mechanical work only:
pool listing, job files, running vh-fmt, interning equal token streams, sharding, running TLC.
Every accept/reject decision is taken by spec/Trace_Fmt.tla."""
import json, os, hashlib, glob, concurrent.futures
from lib.common import *

SEED_DIR = os.path.join(ROOT, "pools", "parse_seeds")
# configurations (names understood by vh-fmt::config_named).  `crlf` (newline_style = Windows) and
# `align` (field_alignment) are restricted to the seed files: see notes/C18.md.
CFGS_ALL_FILES = ["default", "w40", "w200", "tabs", "ts2", "nl2"]
CFGS_SEEDS_ONLY = ["nosmall", "hoff", "hmax", "align", "crlf"]
VARIANT_CFGS = ["default"]
# newline_style=Windows is broken for every source with a blank line (notes/C18.md, mechanism 6):
# only the first seeds are run under it, as representatives
CRLF_SEEDS = 6
VARIANT_MAX_TOKENS = 40


def repo_sw_files():
    out = []
    for root, dirs, files in os.walk(REPO):
        dirs[:] = sorted(d for d in dirs if d not in (".git", "target"))
        for f in sorted(files):
            if f.endswith(".sw"):
                out.append(os.path.join(root, f))
    return sorted(out)


def seed_files():
    return sorted(glob.glob(os.path.join(SEED_DIR, "*.sw")))


def rel(p):
    if p.startswith(REPO + "/"):
        return p[len(REPO) + 1:]
    if p.startswith(ROOT + "/"):
        return p[len(ROOT) + 1:]
    return p


def job_key(job):
    """Identifies one specific input + configuration (used for known findings)."""
    k = "%s:%s" % (job["cfg"], rel(job.get("file", "<text>")))
    if job.get("ins"):
        k += ":ins=" + ",".join("%d%s" % (b, kd) for b, kd in job["ins"])
    return k


def variant_seeds(ctx, max_tokens=VARIANT_MAX_TOKENS):
    """Seed files usable for comment-insertion variants: formatter accepts them, small."""
    seeds = seed_files()
    inp = os.path.join(ctx.work, "seedfiles.ndjson")
    write_ndjson(inp, [{"file": s} for s in seeds])
    outp = os.path.join(ctx.work, "seedmeta.ndjson")
    ctx.vh("vh-fmt", ["--meta", "--in", inp, "--out", outp])
    meta = read_ndjson(outp)
    # accepted by the formatter under the default configuration?
    jobs = os.path.join(ctx.work, "seedjobs.ndjson")
    write_ndjson(jobs, [{"id": i, "cfg": "default", "file": m["file"]} for i, m in enumerate(meta)])
    evp = os.path.join(ctx.work, "seedev.ndjson")
    ctx.vh("vh-fmt", ["--in", jobs, "--out", evp, "--jobs", 4])
    ok = {e["job"]["file"] for e in read_ndjson(evp) if e.get("status") == "ok"}
    return [m for m in meta if m["file"] in ok and 0 < m["ntok"] <= max_tokens]


def enumerate_variants(ctx, seeds, pairs_sim=0, tlc_seed=11):
    """TLC enumerates the insertions (BFS): every single one, plus every pair at neighbouring boundaries."""
    sp = os.path.join(ctx.work, "gen_seeds.ndjson")
    write_ndjson(sp, [{"file": rel(m["file"]), "ntok": m["ntok"]} for m in seeds])
    g = ctx.tlc("Gen_Fmt", "Gen_Fmt1", workers=1, env={"SEEDS": sp}, count=False, name="GenFmt1")
    recs = g.printed("REPLAY")
    prs = []
    if pairs_sim:
        g2 = ctx.tlc("Gen_Fmt", "Gen_Fmt2", workers=1, env={"SEEDS": sp}, count=False, name="GenFmt2")
        prs = g2.printed("REPLAY")
    jobs = []
    for r in recs + prs:
        jobs.append({"file": seeds[r["seed"] - 1]["file"], "ins": [[x[0], x[1]] for x in r["ins"]]})
    return jobs, len(recs), len(prs)


def run_vh_fmt(ctx, jobs, tokens, name):
    inp = os.path.join(ctx.work, name + ".jobs.ndjson")
    outp = os.path.join(ctx.work, name + ".events.ndjson")
    write_ndjson(inp, jobs)
    args = ["--in", inp, "--out", outp, "--jobs", 4, "--timeout", 60]
    if tokens:
        args.append("--tokens")
    ctx.vh("vh-fmt", args, timeout=7200)
    evs = read_ndjson(outp)
    if len(evs) != len(jobs):
        raise ToolError("vh-fmt returned %d events for %d jobs" % (len(evs), len(jobs)))
    for e, j in zip(evs, jobs):
        e["job"] = j
    return evs


STREAMS = ["cin", "pin", "cout", "pout", "min", "mout"]


def shard_events(events, tokens, max_events, max_table_bytes=6_000_000):
    """Split into shards; within a shard, intern equal streams (exact JSON equality) into a table."""
    shards = []
    cur, table, index, size = [], [], {}, 0

    def flush():
        nonlocal cur, table, index, size
        if cur:
            shards.append((cur, table))
        cur, table, index, size = [], [], {}, 0

    for e in events:
        rec = {"ev": "Fmt", "id": e["id"], "cfg": e["cfg"], "status": e.get("status", "lost"),
               "inh": e.get("inh", ""), "outh": e.get("outh", ""), "status2": e.get("status2", ""),
               "out2h": e.get("out2h", ""), "parses": bool(e.get("parses", False))}
        if tokens:
            has = e.get("status") == "ok" and all(s in e for s in STREAMS)
            if e.get("status") == "ok" and not has:
                rec["status"] = "ok"     # formatted, but a stream could not be produced: stays
                has = False              # unmatched in the trace spec (no table entry 0)
            for s in STREAMS:
                if has:
                    txt = json.dumps(e[s], separators=(",", ":"), ensure_ascii=False)
                    k = index.get(txt)
                    if k is None:
                        table.append(txt)
                        k = len(table)
                        index[txt] = k
                        size += len(txt)
                    rec[s] = k
                else:
                    rec[s] = 0
        cur.append(rec)
        if len(cur) >= max_events or size >= max_table_bytes:
            flush()
    flush()
    return shards


def validate(ctx, events, cfg, tokens, max_events, name, parallel=4):
    """Runs Trace_Fmt (cfg) over all events. Returns list of rejected events (as decided by TLC)."""
    shards = shard_events(events, tokens, max_events)
    rejected = []

    def one(k):
        recs, table = shards[k]
        tp = os.path.join(ctx.work, "%s-%d.trace.ndjson" % (name, k))
        write_ndjson(tp, recs)
        env = {}
        if tokens:
            tb = os.path.join(ctx.work, "%s-%d.table.ndjson" % (name, k))
            with open(tb, "w") as f:
                for t in table:
                    f.write(t + "\n")
            env["TABLE"] = tb
        tr = ctx.tlc_trace("Trace_Fmt", cfg, tp, env=env, name="%s-%d" % (name, k), timeout=3600)
        if tr.violated is None:
            bad = []
        elif tr.violated == "postcondition":
            import re
            bad = [int(x) for x in re.findall(r'<<"REJECTED", (\d+), \d+, \d+>>', tr.out)]
            if not bad:
                raise ToolError("trace validation failed without a REJECTED set: %s-%d" % (name, k))
        else:
            raise ToolError("trace validation failed unexpectedly (%s) on %s-%d" % (tr.violated, name, k))
        if not tokens or not bad:
            for f in (tp,):
                pass
        return k, bad

    with concurrent.futures.ThreadPoolExecutor(max_workers=parallel) as ex:
        for k, bad in ex.map(one, range(len(shards))):
            for b in bad:
                rejected.append(shards[k][0][b - 1]["id"])
    return rejected, len(shards)


def high_water(ctx, events, name):
    """Re-validates the rejected events (one TLC run, DETAIL mode) to obtain for each the furthest
    cursor positions (for the replay description). Returns {event id: (i, j)}."""
    import re
    out = {}
    evs = [e for e in events if all(s in e for s in STREAMS)]
    for k, (recs, table) in enumerate(shard_events(evs, True, 300)):
        tp = os.path.join(ctx.work, "%s-%d.trace.ndjson" % (name, k))
        tb = os.path.join(ctx.work, "%s-%d.table.ndjson" % (name, k))
        write_ndjson(tp, recs)
        with open(tb, "w") as f:
            for t in table:
                f.write(t + "\n")
        tr = ctx.tlc_trace("Trace_Fmt", "Trace_Fmt", tp, env={"TABLE": tb, "DETAIL": "1"},
                           name="%s-%d" % (name, k), count=False)
        for m in re.finditer(r'<<"REJECTED", (\d+), (\d+), (\d+)>>', tr.out):
            out[recs[int(m.group(1)) - 1]["id"]] = (max(int(m.group(2)), 1), max(int(m.group(3)), 1))
    return out
