"""C17 The compiler never crashes on any package -- SwayMutate.tla (input space) + CompileOutcome.tla (rule).

1. TLC model-checks the two-outcome machine (MC_CompileOutcome) and ENUMERATES the input space:
   * MC_SwayMutate.cfg, breadth-first: ALL single mutations (sites x ~95 kinds: type / name / structure level)
     of the base packages (lib/swaygen, seeds 0..NB-1); TLC also applies them and prints one replay record each;
   * MC_SwayMutate2.cfg, -simulate with a fixed seed: a pool of double mutations.
2. Mechanical corpus inputs: every e2e should_fail program as it is, every should_pass program as it is, textual
   mutations of the should_pass programs (delete one item / member / use, truncate at a token boundary), and
   the reproducers kept in pools/findings.
3. Every input is compiled (debug; a slice also in release) by vh-crash (forc_pkg::compile per package, std
   compiled once per process) and a slice through the complete forc path (vh-exec, forc_pkg::build_with_options).
   Every result that is not artifacts / diagnostics is re-run ALONE in a fresh vh-exec process before it counts.
4. One event Compiled(pkg, profile, engine, outcome) per compilation; Trace_CompileOutcome.tla accepts a record
   only for outcome in {artifacts, diagnostics}.  TLC decides; a rejected record is a violation.
"""
import glob, hashlib, json, os, re, threading
from lib.common import *
from lib import swaymutate as sm, crashexec as cx, textmutate as tm, corpus
from lib.swaygen import Renderer
from lib.swayexec import run_packages

FINDINGS = os.path.join(ROOT, "pools", "findings")


def _sha(s):
    return hashlib.sha256(s.encode()).hexdigest()


def _supported(p):
    """vh-crash handles packages whose only dependency is std."""
    m = p["manifest"]
    paths = re.findall(r'path\s*=\s*"([^"]*)"', m)
    return all(x == "/repo/sway-lib-std" for x in paths) and "git =" not in m and "[workspace]" not in m


def _corpus_inputs(ctx):
    """(as_is, text_mutants): records {"id","key","files","manifest","class"}."""
    as_is, muts = [], []
    n = 0
    for sub, cats in (("should_fail", ("fail", "run", "compile")), ("should_pass", ("run", "compile", "unit_tests_pass"))):
        for cat in cats:
            for p in corpus.programs(cat, subdir=sub):
                if not _supported(p):
                    continue
                n += 1
                pid = "c%s%04d" % (sub[7], n)
                as_is.append({"id": pid, "key": "corpus:%s" % p["rel"], "files": p["files"], "manifest": p["manifest"],
                              "class": "corpus_" + sub})
                if sub != "should_pass":
                    continue
                entry = "src/main.sw" if "src/main.sw" in p["files"] else sorted(p["files"])[0]
                for j, (label, text) in enumerate(tm.mutations(p["files"][entry], p["rel"])):
                    files = dict(p["files"])
                    files[entry] = text
                    muts.append({"id": "%sx%d" % (pid, j), "key": "corpus:%s:%s:%s" % (p["rel"], entry, label),
                                 "files": files, "manifest": p["manifest"], "class": "corpus_text_mutant"})
    return as_is, muts


def _findings_inputs(quick):
    """The reproducers kept in pools/findings (fixed defects must now compile; open ones are known findings).
    Reproducers of non-termination (*_hang.sw) cost a full time-out each and are left to the thorough tier."""
    out = []
    for i, f in enumerate(sorted(glob.glob(os.path.join(FINDINGS, "*.sw")))):
        if quick and f.endswith("_hang.sw"):
            continue
        out.append({"id": "fnd%02d" % i, "key": "finding:%s" % os.path.basename(f), "files": {"src/main.sw": open(f).read()},
                    "class": "finding_reproducer"})
    return out


def _ast_inputs(ctx, nb, ndouble, sim_seed):
    """TLC enumerates (and applies) the mutations; returns (records, tlc results, bases)."""
    bases = [sm.base_package(s) for s in range(nb)]
    for b in bases:      # tool sanity: the mutant renderer prints an unmutated package exactly like lib/swaygen
        if sm.render(b) != Renderer(b["prog"]).package(b["tests"]):
            raise ToolError("MutRenderer and swaygen.Renderer disagree on the unmutated base %s" % b["id"])
    bp = os.path.join(ctx.work, "base.ndjson")
    write_ndjson(bp, bases)
    res = {}

    def sim():
        try:
            res["sim"] = ctx.tlc("MC_SwayMutate", "MC_SwayMutate2", workers=1, env={"BASE": bp}, xss="512m", simulate=ndouble,
                                 depth=3, tlc_seed=sim_seed, name="mutate2", timeout=3000)
        except Exception as e:     # re-raised in the main thread
            res["sim_err"] = e
    th = threading.Thread(target=sim)
    th.start()
    single = ctx.tlc("MC_SwayMutate", "MC_SwayMutate", workers=3, env={"BASE": bp}, xss="512m", name="mutate1", timeout=3000)
    th.join()
    if "sim_err" in res:
        raise res["sim_err"]
    for r in (single, res["sim"]):
        if r.violated:
            ctx.report("model:" + r.violated, "SwayMutate.tla violates its own invariant " + r.violated,
                       {"tlc": r.counterexample()[:4000]})
    byid = {b["id"]: b for b in bases}
    recs = {}
    for which, r in (("single", single), ("double", res["sim"])):
        for rec in r.printed("REPLAY"):
            key = sm.mutant_key(rec)
            if key in recs:
                continue
            pkg = sm.apply(byid[rec["base"]], rec)
            recs[key] = {"id": sm.mutant_id(rec), "key": "mut:" + key, "files": {"src/main.sw": sm.render(pkg)},
                         "class": "ast_%s_mutant" % which, "kinds": [m["kind"] for m in rec["muts"]]}
    kinds_spec = []
    m = re.search(r'<<"KINDS", "(.*)">>', single.out)
    if m:
        kinds_spec = json.loads(m.group(1).replace('\\"', '"'))
    return [recs[k] for k in sorted(recs)], single, res["sim"], bases, kinds_spec


def _site(a):
    if a.get("kinds"):
        return "+".join(a["kinds"])
    if a["class"].startswith("corpus"):
        return ":".join(a["key"].split(":")[:2])
    return a["key"]


def _event(inp, profile, engine, outcome):
    return {"ev": "Compiled", "pkg": inp["id"], "profile": profile, "engine": engine, "outcome": outcome}


def run(ctx):
    mc = ctx.tlc("MC_CompileOutcome", "MC_CompileOutcome", workers=2, coverage=True)
    if mc.violated:
        ctx.report("model:" + mc.violated, "CompileOutcome.tla violates its own invariant " + mc.violated,
                   {"tlc": mc.counterexample()[:4000]})
    # ------------------------------------------------------------------ inputs
    nb, ndouble = (2, 30) if ctx.quick else (8, 1000)
    ast, tlc1, tlc2, bases, kinds_spec = _ast_inputs(ctx, nb, ndouble, 17)
    as_is, text = _corpus_inputs(ctx)
    fnd = _findings_inputs(ctx.quick)
    pool_sizes = {"ast_single": len([a for a in ast if a["class"] == "ast_single_mutant"]),
                  "ast_double": len([a for a in ast if a["class"] == "ast_double_mutant"]),
                  "corpus_as_is": len(as_is), "corpus_text_mutants": len(text), "finding_reproducers": len(fnd)}
    if ctx.quick:
        inputs = (slice_for_seed([a for a in ast if a["class"] == "ast_single_mutant"], ctx.seed, 240)
                  + slice_for_seed([a for a in ast if a["class"] == "ast_double_mutant"], ctx.seed, 20)
                  + slice_for_seed([a for a in as_is if a["class"] == "corpus_should_fail"], ctx.seed, 16)
                  + slice_for_seed([a for a in as_is if a["class"] == "corpus_should_pass"], ctx.seed, 4)
                  + slice_for_seed(text, ctx.seed, 30) + fnd)
    else:
        inputs = ast + as_is + text + fnd
    ids = {}
    for a in inputs:
        if a["id"] in ids:
            raise ToolError("duplicate input id %s" % a["id"])
        ids[a["id"]] = a
    log("[C17] pool %s; running %d inputs" % (pool_sizes, len(inputs)))
    # ------------------------------------------------------------------ compile
    events, confirm_jobs = [], []
    results = {}     # (id, profile, engine) -> outcome, detail

    def take(res, subset, profile, engine):
        for a in subset:
            r = res.get(a["id"]) or {"built": None, "crashed": {"rc": None, "stderr": "no result"}}
            o = cx.classify(r["built"], r["crashed"])
            results[(a["id"], profile, engine)] = (o, cx.detail(r["built"], r["crashed"]))

    normal = [a for a in inputs if a["class"] != "finding_reproducer"]
    # the complete forc path (several packages per fresh vh-exec process), both profiles, on a slice -- concurrently
    full_inputs = slice_for_seed(normal, ctx.seed + 2, 4 if ctx.quick else 40)
    full_res = {}

    def full_path(subset, profile):
        jobs = [dict({k: v for k, v in a.items() if k in ("files", "manifest")}, id=a["id"], profile=profile, run=False, want=["diag"])
                for a in subset]
        rp = run_packages(ctx, jobs, procs=2)
        return {k: {"built": v["built"], "crashed": v["crashed"]} for k, v in rp.items()}

    def full_thread():
        try:
            for profile in ("debug", "release"):
                full_res[profile] = full_path(full_inputs, profile)
        except Exception as e:
            full_res["err"] = e
    ctx.build_vh("vh-exec")
    ctx.build_vh("vh-crash")
    th = threading.Thread(target=full_thread)
    th.start()
    nproc = 3 if ctx.quick else 4
    take(cx.run_fast(ctx, normal, "debug", procs=nproc), normal, "debug", "vh-crash")
    rel_inputs = slice_for_seed(normal, ctx.seed + 1, max(16, len(normal) // 12))
    take(cx.run_fast(ctx, rel_inputs, "release", procs=nproc), rel_inputs, "release", "vh-crash")
    # the kept reproducers, both profiles, with a short time-out (the *_hang.sw ones are known not to terminate)
    for profile in ("debug", "release"):
        take(cx.run_fast(ctx, fnd, profile, procs=2, pkg_timeout=60, chunk=50), fnd, profile, "vh-crash")
    rel_inputs = rel_inputs + fnd
    th.join()
    if "err" in full_res:
        raise full_res["err"]
    for profile in ("debug", "release"):
        take(full_res[profile], full_inputs, profile, "vh-exec")
    unsupported = [a for a in inputs if results[(a["id"], "debug", "vh-crash")][0] == "unsupported"]
    if unsupported:
        take(full_path(unsupported, "debug"), unsupported, "debug", "vh-exec")
    # ------------------------------------------------------------------ confirm every suspicious result alone
    suspicious = sorted(k for k, (o, _d) in results.items() if o not in ("artifacts", "diagnostics", "unsupported"))
    seen = set()
    jobs = []
    for (pid, profile, engine) in suspicious:
        if (pid, profile) not in seen:
            seen.add((pid, profile))
            jobs.append((ids[pid], profile))
    confirmed = {}
    for pool_, tmo in (([j for j in jobs if j[0]["class"] != "finding_reproducer"], 300 if ctx.quick else 600),
                       ([j for j in jobs if j[0]["class"] == "finding_reproducer"], 150)):
        for (a, profile), r in zip(pool_, cx.run_alone_many(ctx, pool_, procs=4, pkg_timeout=tmo)):
            confirmed[(a["id"], profile)] = (cx.classify(r["built"], r["crashed"]), cx.detail(r["built"], r["crashed"]))
    not_reproduced = []
    final = {}
    for k, (o, d) in sorted(results.items()):
        pid, profile, engine = k
        if o == "unsupported":
            continue
        if o in ("artifacts", "diagnostics"):
            final[k] = (o, d)
            continue
        co, cd = confirmed[(pid, profile)]
        if co in ("artifacts", "diagnostics"):
            not_reproduced.append({"input": ids[pid]["key"], "profile": profile, "engine": engine, "first": o, "detail": d[:200], "alone": co})
        final[k] = (co, cd)
    events = [_event(ids[k[0]], k[1], k[2], o) for k, (o, _d) in sorted(final.items())]
    # ------------------------------------------------------------------ TLC decides
    validated = 0
    rejected = []
    pos, shard = 0, 20000
    while pos < len(events):
        chunk = events[pos:pos + shard]
        for attempt in (1, 2):
            tp = os.path.join(ctx.work, "trace.ndjson")
            write_ndjson(tp, chunk)
            tr = ctx.tlc_trace("Trace_CompileOutcome", "Trace_CompileOutcome", tp, name="trace%d-%d" % (pos, attempt))
            if tr.violated is None:
                validated += len(chunk)
                break
            k = tr.first_unmatched()
            m = re.search(r'<<\s*"UNCONSUMABLE",\s*"(\[[0-9,]*\])"\s*>>', tr.out)
            if tr.violated != "postcondition" or k is None or not m or attempt == 2:
                raise ToolError("trace validation failed unexpectedly: %s" % tr.violated)
            bad = sorted(json.loads(m.group(1)))
            if not bad or bad[0] != k:
                raise ToolError("first rejected record %s is not the first unconsumable one %s" % (k, bad[:3]))
            rejected += [chunk[i - 1] for i in bad]
            chunk = [e for i, e in enumerate(chunk, 1) if i not in set(bad)]
        pos += shard
    # One report per (crash signature, site): the site is the mutation kind(s) for generated mutants, the corpus
    # program for corpus inputs, the file for kept reproducers -- the mechanism, not the individual mutant.
    groups = {}
    for ev in rejected:
        a = ids[ev["pkg"]]
        o, d = final[(ev["pkg"], ev["profile"], ev["engine"])]
        # a compilation that did not finish ALONE within the generous limit is a hang of that input
        key = ("hang:%s" % _site(a)) if o == "timeout" else "%s|%s" % (cx.signature(o, d), _site(a))
        groups.setdefault(key, []).append((a, ev, o, d))
    for key in sorted(groups):
        a, ev, o, d = groups[key][0]
        ctx.report(key, "compiling %s (%s, %s) ended with %s: %s" % (a["key"], ev["profile"], ev["engine"], o, d[:300]),
                   {"input": a["key"], "class": a["class"], "profile": ev["profile"], "engine": ev["engine"], "outcome": o,
                    "detail": d, "key": key, "files": a["files"], "manifest": a.get("manifest"),
                    "inputs_with_this_key": sorted({x[0]["key"] + " [" + x[1]["profile"] + "]" for x in groups[key]})[:200]})
    # ------------------------------------------------------------------ binding self-test: a crash record must be rejected
    selftest = None
    if events:
        i = len(events) // 2
        corrupted = [dict(e) for e in events[max(0, i - 50):i + 50] if e["outcome"] in ("artifacts", "diagnostics")]
        j = len(corrupted) // 2
        corrupted[j]["outcome"] = "panic"
        tp = os.path.join(ctx.work, "trace-selftest.ndjson")
        write_ndjson(tp, corrupted)
        tr = ctx.tlc_trace("Trace_CompileOutcome", "Trace_CompileOutcome", tp, name="selftest", count=False)
        selftest = {"corrupted_record": j + 1, "rejected_at": tr.first_unmatched()}
        if tr.violated != "postcondition" or tr.first_unmatched() != j + 1:
            raise ToolError("binding self-test failed: a panic record was not rejected")
    # ------------------------------------------------------------------ evidence
    by_class, by_kind = {}, {}
    for k, (o, _d) in final.items():
        a = ids[k[0]]
        c = by_class.setdefault(a["class"], {})
        c[o] = c.get(o, 0) + 1
        if k[1] == "debug" and k[2] == "vh-crash":
            for kind in a.get("kinds", []):
                kk = by_kind.setdefault(kind, {})
                kk[o] = kk.get(o, 0) + 1
    by_part = {}
    for a in inputs:
        if a.get("kinds"):
            for part in re.findall(r"@(tests|prog\.fns|prog\.structs|prog\.enums|prog\.kind)", a["key"]):
                by_part[part] = by_part.get(part, 0) + 1
    kinds_seen = sorted(by_kind)
    missing = sorted(set(kinds_spec) - set(kinds_seen)) if not ctx.quick else []
    if not ctx.quick and (not kinds_spec or missing):
        raise ToolError("mutation kinds of SwayMutate.tla that never fired: %s" % (missing or "Kinds not printed"))
    engines_disagree = []
    for (pid, profile, engine), (o, _d) in final.items():
        if engine == "vh-exec" and (pid, profile, "vh-crash") in final and final[(pid, profile, "vh-crash")][0] != o:
            engines_disagree.append({"input": ids[pid]["key"], "profile": profile, "vh-exec": o, "vh-crash": final[(pid, profile, "vh-crash")][0]})
    distinct_src = {_sha(json.dumps(a["files"], sort_keys=True)) for a in inputs}
    nontrivial = len({k[0] for k, (o, _d) in final.items() if o == "diagnostics"})
    samples = []
    for k in sorted(final)[:2] + sorted(final)[-2:]:
        samples.append({"input": ids[k[0]]["key"], "profile": k[1], "engine": k[2], "outcome": final[k][0]})
    return ctx.finish("exploration", {
        "evaluations": len(events),
        "distinct_nontrivial": nontrivial,
        "rule": "Trace_CompileOutcome.tla: Compiled(pkg, outcome) is enabled only for outcome in {artifacts, diagnostics}; "
                "panic, 'internal compiler error' text, a dead process and a time-out have no action",
        "traces_validated_against_impl": validated,
        "inputs": len(inputs), "distinct_sources": len(distinct_src), "pool_sizes": pool_sizes,
        "base_packages": [b["id"] for b in bases], "tlc_single_mutants_states": tlc1.distinct, "tlc_double_traces": tlc2.generated,
        "outcomes_by_class": by_class,
        "outcomes_by_mutation_kind": by_kind,
        "mutation_kinds_in_spec": len(kinds_spec), "mutation_kinds_fired": len(kinds_seen),
        "release_slice": len(rel_inputs), "full_forc_path_slice": len(full_inputs), "unsupported_by_fast_engine": len(unsupported),
        "suspicious_first": len(suspicious), "confirmed_alone": len([1 for v in confirmed.values() if v[0] not in ("artifacts", "diagnostics")]),
        "not_reproduced_alone": not_reproduced[:50],
        "inconclusive_timeouts": len([n for n in not_reproduced if n["first"] == "timeout"]),
        "engines_disagree": engines_disagree[:50],
        "rejected_groups": {k: {"count": len(v), "first": v[0][0]["key"]} for k, v in groups.items()},
        "binding_selftest": selftest,
        "action_coverage": mc.coverage_actions(),
        "mutants_by_part": by_part,
        "samples": samples,
    }, assumptions=[
        "the bulk of the pool is compiled by vh-crash: forc_pkg::BuildPlan + forc_pkg::compile per package with the std namespace "
        "reused inside one process; a slice goes through forc_pkg::build_with_options in fresh processes, and every crash is "
        "confirmed there before it counts",
        "time-out = 120 s per package in the batch engine, 600 s alone (300 s in the quick tier); a compilation that exceeds it "
        "alone counts as non-terminating",
        "generated base packages: lib/swaygen seeds 0..%d with %d test cases each; single mutations are exhaustive over sites x kinds, "
        "double mutations are a fixed-seed TLC simulation pool" % (nb - 1, sm.NCASE),
        "corpus programs with dependencies other than std are not in the pool",
        "thin model: the specification delimits the outcome of an opaque compile step; it does not predict accept/reject",
    ])


def replay(path):
    """Re-compile the stored input alone (fresh vh-exec) and print the outcome."""
    v = json.load(open(path))["replay"]
    ctx = Ctx("C17-replay", "quick", 0)
    pkg = {"id": "replay_pkg", "files": v["files"]}
    if v.get("manifest"):
        pkg["manifest"] = v["manifest"]
    r = cx.run_alone(ctx, pkg, v["profile"], pkg_timeout=600, tag="replay")
    o = cx.classify(r["built"], r["crashed"])
    print(json.dumps({"input": v["input"], "profile": v["profile"], "outcome": o, "detail": cx.detail(r["built"], r["crashed"])}, indent=1))
    return 0 if o in ("artifacts", "diagnostics") else 1
