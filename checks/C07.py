"""C07 Assembly-level optimizations preserve behaviour.

PassOrder.tla's AsmConfigs (all on, all off, each sub-optimization alone, each one removed) are enumerated
by TLC; hook H3 (SWAY_VERIF_ASM_OPTS) builds each generated program under each selection in both profiles;
every observation must equal SwaySem.Run of the source (Trace_SwaySem.tla), hence optimizer on == off.
"""
import json
from lib.common import *
from lib import semcheck, pipecheck

POOL = list(range(601, 661))


def run(ctx):
    _configs, asm, tl = pipecheck.tlc_configs(ctx, 1)
    asm = sorted(asm, key=lambda a: (len(a["on"]), sorted(a["on"])))
    cfgs = []
    for prof in ("debug", "release"):
        for i, a in enumerate(asm):
            cfgs.append({"name": "%s_asm%d" % (prof, i), "profile": prof, "on": sorted(a["on"]),
                         "env": {"SWAY_VERIF_ASM_OPTS": ",".join(sorted(a["on"]))}})
        cfgs.append({"name": "%s_default" % prof, "profile": prof, "on": "compiler default", "env": {}})
    if ctx.quick:
        seeds = slice_for_seed(POOL, ctx.seed, 3)
        keep = [c for c in cfgs if c["on"] == "compiler default" or len(c["on"]) in (0, 9)]
        rest = [c for c in cfgs if c not in keep]
        cfgs = keep + slice_for_seed(rest, ctx.seed, 14)
    else:
        seeds = slice_for_seed(POOL, ctx.seed, 16)
    pkgs = [semcheck.gen_package(s) for s in seeds]
    # The property compares optimizer-on with optimizer-off. Configurations with only some sub-optimizations
    # switched on are not configurations the compiler ever runs (one sub-pass may rely on another to clean up
    # after it); they are built and validated for information only and never raise an alarm.
    primary = [c for c in cfgs if c["on"] == "compiler default" or len(c["on"]) in (0, 9)]
    partial = [c for c in cfgs if c not in primary]
    obs, failures, _ = semcheck.run_configs(ctx, pkgs, primary, procs=10)
    semcheck.report_failures(ctx, failures)
    validated, rej = semcheck.validate(ctx, pkgs, obs)
    semcheck.report_rejections(ctx, rej, pkgs)
    pobs, pfail, _ = semcheck.run_configs(ctx, pkgs, partial, procs=10) if partial else ({}, [], None)
    pval, prej = semcheck.validate(ctx, pkgs, pobs) if partial else (0, [])
    cfgs = primary
    info_partial = {"configs": len(partial), "observations_validated": pval,
                    "build_failures": sorted({(f["cfg"], f["detail"][:120]) for f in pfail})[:10],
                    "disagreements_with_semantics": [{"pkg": r["pkg"], "test": r["test"]} for r in prej][:10]}
    return ctx.finish("model_checking", {
        "traces_validated_against_impl": validated,
        "programs": len(pkgs), "asm_configurations": len(cfgs), "builds": len(pkgs) * len(cfgs),
        "observations": sum(len(o) for pk in obs.values() for o in pk.values()),
        "distinct_nontrivial_cases": semcheck.nontrivial_count(obs),
        "failed_builds": len(failures),
        "info_partial_configurations": info_partial,
        "samples": [{"config": c["name"], "on": c["on"]} for c in cfgs[:4]],
    }, assumptions=[
        "H3 selects sub-optimizations inside AbstractInstructionSet::optimize and AllocatedAbstractInstructionSet::optimize; 'all off' is the optimizer disabled",
        "behaviour is judged by SwaySem.tla on the Sway-mini fragment",
    ])


def replay(path):
    print(json.dumps(json.load(open(path)), indent=1)[:6000])
    return 0
