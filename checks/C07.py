"""C07 Assembly-level optimizations preserve behaviour.

PassOrder.tla's AsmConfigs (all on, all off, each sub-optimization alone, each one removed) are enumerated
by TLC; hook H3 (SWAY_VERIF_ASM_OPTS) builds each generated program under each selection in both profiles;
every observation must equal SwaySem.Run of the source (Trace_SwaySem.tla), hence optimizer on == off.
"""
import json
from lib.common import *
from lib import semcheck, pipecheck

POOL = list(range(601, 661))


def run(ctx):
    _configs, asm, tl = pipecheck.tlc_configs(ctx, 1)
    asm = sorted(asm, key=lambda a: (len(a["on"]), sorted(a["on"])))
    cfgs = []
    for prof in ("debug", "release"):
        for i, a in enumerate(asm):
            cfgs.append({"name": "%s_asm%d" % (prof, i), "profile": prof, "on": sorted(a["on"]),
                         "env": {"SWAY_VERIF_ASM_OPTS": ",".join(sorted(a["on"]))}})
        cfgs.append({"name": "%s_default" % prof, "profile": prof, "on": "compiler default", "env": {}})
    if ctx.quick:
        seeds = slice_for_seed(POOL, ctx.seed, 3)
        keep = [c for c in cfgs if c["on"] == "compiler default" or len(c["on"]) in (0, 9)]
        rest = [c for c in cfgs if c not in keep]
        cfgs = keep + slice_for_seed(rest, ctx.seed, 14)
    else:
        seeds = slice_for_seed(POOL, ctx.seed, 16)
    pkgs = [semcheck.gen_package(s) for s in seeds]
    obs, failures, _ = semcheck.run_configs(ctx, pkgs, cfgs, procs=10)
    semcheck.report_failures(ctx, failures)
    validated, rej = semcheck.validate(ctx, pkgs, obs)
    semcheck.report_rejections(ctx, rej, pkgs)
    return ctx.finish("model_checking", {
        "traces_validated_against_impl": validated,
        "programs": len(pkgs), "asm_configurations": len(cfgs), "builds": len(pkgs) * len(cfgs),
        "observations": sum(len(o) for pk in obs.values() for o in pk.values()),
        "distinct_nontrivial_cases": semcheck.nontrivial_count(obs),
        "failed_builds": len(failures),
        "samples": [{"config": c["name"], "on": c["on"]} for c in cfgs[:4]],
    }, assumptions=[
        "H3 selects sub-optimizations inside AbstractInstructionSet::optimize and AllocatedAbstractInstructionSet::optimize; 'all off' is the optimizer disabled",
        "behaviour is judged by SwaySem.tla on the Sway-mini fragment",
    ])


def replay(path):
    print(json.dumps(json.load(open(path)), indent=1)[:6000])
    return 0
