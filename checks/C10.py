"""C10 Trivial-encoding fast path is sound -- AbiCodec.tla (model-checked) + vh-exec.

1. Design-level model check: AbiCodec.tla transcribes the compiler's lowering and layout (Ir, IrSize, RtRepr =
   get_runtime_representation, EncRepr = get_encoding_representation, memory-id equality) and the
   is_encode_trivial / is_decode_trivial impls of std and of the derived impls.  For every type tree of the
   universes (d1: all of depth <= 1; d2: 76 k of depth 2; d3: 50 k of depth 3) TLC checks:
     TrivialEnc(t) => no padding and Mem(t, v) = EncT(t, v) for every representative v; EncImpl = EncT (the Vec
     element shortcut included); TrivialDec(t) => every adversarial byte string of the right length (all 0/1/2/255,
     a mixed pattern, all encodings) is the memory image of a valid value whose encoding it is; layout consistency.
   A counterexample is a type tree.  Binding: four mutants of the classification must each yield one.
   The transcription is pinned to the repository's golden file language/type_layout/logs.snap (49 rows, ASSUME).
2. Conformance: (i) classification probes log is_encode_trivial::<T>(), is_decode_trivial::<T>(),
   __runtime_mem_id::<T>() == __encoding_mem_id::<T>(), __size_of::<T>() for every pool type; (ii) the
   trivially en/decodable types run the full C09 case (log / encode / raw memory / decode / leaf walk), which
   exercises the memcpy paths on the VM; (iii) byte strings that are not encodings (bool byte 2 / 255, enum tag =
   variant count / 2^64-1, truncated buffer) are passed to abi_decode::<T>: Trace_AbiCodec accepts only a revert.
"""
import json, copy
from lib.common import *
from lib import abigen

MUTANTS = ["TrivialDecBoolMutant", "TrivialDecEnumMutant", "TrivialEncNoIdMutant", "TrivialEncU16Mutant"]
TRUNC_KEY = "abi_decode:truncated-buffer:length-ignored"
INCLUDE_TRUNCATED = True    # present truncated buffers to abi_decode (see notes/C10.md, finding)


def report(ctx, rej, failures):
    for f in failures:
        # key = kind + profile + the first line of the diagnostic (the mechanism), not the package number
        msg = abigen.re.sub(r"\s+", " ", f["detail"].split("|", 1)[-1].strip())[:140]
        ctx.report("%s:%s:%s" % (f["kind"], f.get("profile", ""), msg),
                   "%s of a generated package of valid programs (%s): %s" % (f["kind"], f["pkg"], f["detail"][:300]), f)
    trunc = []
    for rj in rej:
        r = rj["rec"]
        if r["ev"] == "Invalid" and r["kind"] == "truncated" and rj["failed"] == '{"invalid_reverts"}' and r["out"] == "return":
            trunc.append(rj)            # one mechanism (see TRUNC_KEY): reported once, below
            continue
        key = "%s:%s:%s" % (r["ev"].lower(), abigen.short_type(r["t"]), rj["failed"])
        if r["ev"] == "Invalid":
            key += ":%s:%s:%d" % (r["kind"], bytes(r["bytes"]).hex()[:64], r["len"])
        elif r["ev"] == "Case":
            key += ":" + json.dumps(r["v"], separators=(",", ":"))[:120]
        ctx.report(key, "observation %s of type %s fails %s" % (r["id"], abigen.short_type(r["t"]), rj["failed"]),
                   {"record": r, "failed": rj["failed"], "expected_by_spec": rj["expected"]})
    if trunc:
        r = trunc[0]["rec"]
        ctx.report(TRUNC_KEY, "abi_decode::<T>(slice) ignores the slice length (BufferReader::from_parts(ptr, _len); the trivial path copies "
                   "__size_of::<T>() bytes): a buffer truncated to a proper prefix of an encoding is decoded from the bytes behind it "
                   "instead of reverting (%d of the truncated-buffer cases; first: abi_decode::<%s> of %d of %d bytes)"
                   % (len(trunc), abigen.short_type(r["t"]), r["len"], len(r["bytes"])),
                   {"cases": len(trunc), "first_records": [x["rec"] for x in trunc[:5]], "expected_by_spec": trunc[0]["expected"]})
    return len(trunc)


def run(ctx):
    from concurrent.futures import ThreadPoolExecutor
    # 1. design-level model check + statistics of the antecedents (anti-vacuity); 2. pool
    #    quick: side by side (2 + 1 + 1 TLC workers); thorough: one after the other (4 workers each)
    cfgs = ["MC_AbiCodec_q_C10"] if ctx.quick else ["MC_AbiCodec_d1_C10", "MC_AbiCodec_d2_C10", "MC_AbiCodec_d3_C10"]
    stats = {}

    def model_check(workers):
        for c in cfgs:
            mc = ctx.tlc("MC_AbiCodec", c, workers=workers, xss="64m", xmx="6g", timeout=3000)
            if mc.violated:
                m = abigen.re.search(r'"FAILED-FACTS", (\{[^}]*\}), "(.*)">>', mc.out)
                ctx.report("model:%s:%s" % (c, m.group(1) if m else mc.violated),
                           "AbiCodec.tla: the classification is unsound for a type tree (counterexample)",
                           {"cfg": c, "failed": m.group(1) if m else None, "type": m.group(2).replace('\\"', '"') if m else None})

    def statistics():
        st = ctx.tlc("MC_AbiCodec", "MC_AbiCodec_stats_q" if ctx.quick else "MC_AbiCodec_stats_d1", workers=1, xss="64m", count=False)
        sj = st.printed("STATS")
        if not sj or sj[0]["trivial_enc"] == 0 or sj[0]["trivial_dec"] == 0 or sj[0]["memid_eq_not_trivial_enc"] == 0:
            raise ToolError("vacuous universe: %s" % sj)
        stats["universe_" + ("q" if ctx.quick else "d1")] = sj[0]

    if ctx.quick:
        with ThreadPoolExecutor(max_workers=2) as ex:
            f1, f2 = ex.submit(model_check, 2), ex.submit(statistics)
            recs = abigen.gen_pool(ctx, quick_parts=4)
            f1.result()
            f2.result()
    else:
        model_check(4)
        statistics()
        for mname in MUTANTS:
            r = ctx.tlc("MC_AbiCodec", "MC_AbiCodec_mut_" + mname, workers=2, xss="64m", count=False, timeout=1200)
            stats["mutant_" + mname] = "counterexample" if r.violated else "NOT DETECTED"
            if not r.violated:
                raise ToolError("binding failure: classification mutant %s passes the model check" % mname)
        recs = abigen.gen_pool(ctx, quick_parts=4)
    ncls = {"trivial_enc": sum(1 for r in recs if r["cls"]["te"]), "trivial_dec": sum(1 for r in recs if r["cls"]["td"]),
            "memid_eq": sum(1 for r in recs if r["cls"]["ideq"]), "memid_eq_not_trivial_enc": sum(1 for r in recs if r["cls"]["ideq"] and not r["cls"]["te"])}
    if ncls["trivial_enc"] == 0 or ncls["trivial_dec"] == 0:
        raise ToolError("vacuous pool: no trivially encodable / decodable type")
    # 3. programs
    pkgs = abigen.c10_packages(recs, "cb", per_pkg=48, ntrunc=1 if INCLUDE_TRUNCATED else 0)
    trace, failures = abigen.run_and_collect(ctx, pkgs, procs=8)
    # 4. the spec decides
    validated, rej = abigen.validate_trace(ctx, "Trace_AbiCodec", "Trace_AbiCodec", trace, "tr")
    ntrunc = report(ctx, rej, failures)
    selftest = None
    if not ctx.quick and len(ctx.violations) <= (1 if ntrunc and not ctx.known_hits else 0):
        c1 = copy.deepcopy(next(t for t in trace if t["ev"] == "Class" and t["logs"]))
        c1["logs"][0][0] ^= 1                                   # flip the observed is_encode_trivial
        c2 = copy.deepcopy(next(t for t in trace if t["ev"] == "Invalid" and t["kind"] == "bool" and t["out"] == "revert"))
        c2["out"], c2["logs"] = "return", [[1]]                 # pretend the decoder returned a value
        c3 = copy.deepcopy(next(t for t in trace if t["ev"] == "Case" and t["memdump"]))
        c3["logs"][2][8] ^= 255                                 # one byte of the raw memory image
        _, r1 = abigen.validate_trace(ctx, "Trace_AbiCodec", "Trace_AbiCodec", [c1, c2, c3], "selftest")
        selftest = {"corrupted_records": 3, "rejected": len(r1)}
        if len(r1) != 3:
            raise ToolError("binding self-test failed: %s" % selftest)
    kinds, inv_kinds = {}, {}
    for t in trace:
        kinds[t["ev"]] = kinds.get(t["ev"], 0) + 1
        if t["ev"] == "Invalid":
            kk = "%s->%s" % (t["kind"], t["out"])
            inv_kinds[kk] = inv_kinds.get(kk, 0) + 1
    sample = next((t for t in trace if t["ev"] == "Invalid" and t["kind"] == "tag"), trace[0] if trace else None)
    return ctx.finish("model_checking", {
        "traces_validated_against_impl": validated,
        "type_trees_in_pool": len(recs), "pool_classification": ncls, "observations": kinds, "invalid_decodes": inv_kinds,
        "packages": len(pkgs), "build_or_run_failures": len(failures), "truncated_buffers_not_rejected": ntrunc,
        "pool": {"tlc_seed": 9, "slice": ("VERIF_SEED mod 4 = %d of the depth<=1 trees + named nestings" % (ctx.seed % 4)) if ctx.quick else "all"},
        "constants": {"model_cfgs": cfgs}, "model_statistics_and_mutants": stats, "binding_selftest": selftest,
        "samples": [{k: sample.get(k) for k in ("id", "t", "kind", "bytes", "len", "logs", "out")}] if sample else [],
    }, assumptions=[
        "memory ids are compared through the representations they hash (DefaultHasher collisions are not modelled); experimental_str_array_no_padding = false (the default)",
        "the model check quantifies over representative values per type and over adversarial byte strings (all 0x00/0x01/0x02/0xff, a mixed pattern, every encoding), not all 256^n strings",
        "TrivialBool / TrivialEnum<T> (wrappers that are trivially decodable on purpose and validated by unwrap()) are outside the type grammar",
        "invalid inputs are presented to abi_decode::<T>(raw_slice); contract-call argument decoding has no length to violate",
        "the pool is finite and deterministic (TLC enumeration, RandomSubset under -seed 9); VERIF_SEED selects the quick slice",
    ])


def replay(path):
    v = json.load(open(path))
    print(json.dumps(v, indent=1)[:8000])
    return 0
