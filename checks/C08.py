"""C08 Register allocation never clobbers a live value.

RegAlloc.tla defines liveness (least fixpoint of the dataflow equations), interference (a register written
at i vs every other register live after i, MOVE source exempt) and the invariants NoClobber / Total / InPool /
SpillDisjoint.
1. MC_RegAlloc.tla: TLC checks on a small register machine (all programs of <= k instructions, all allocations
   of 3 virtual to 2 physical registers, complete runs incl. loops) that NoClobber => the allocated run equals the
   virtual-register run, that the least fixpoint is path liveness, that weakened rules break the theorem
   (anti-vacuity) and that the MOVE exemption is needed.
2. Packages (generated pool seeds 701..760, spill-heavy programs in pools/regalloc/, e2e corpus programs listed
   in pools/regalloc/corpus.txt) are built in debug and release by vh-exec with hook H4 tracing on: per allocated
   function one RegAlloc event (post-coalescing ops + assignment), one Coalesce event per colouring attempt
   (pre-coalescing ops + coalescing map), one Spill event per spill round.
3. The driver renames registers to small integers (mechanical), composes the coalescing map with the assignment,
   dedupes identical functions and shards them; Trace_RegAlloc.tla recomputes liveness from the recorded
   def/use/successor sets and decides every function twice: on the ops before coalescing (the coalesced MOVEs are
   there, destination and source in one register: the MOVE exemption decides) and on the ops after it.
"""
import glob, hashlib, json, os, re, time
from concurrent.futures import ThreadPoolExecutor
from lib.common import *
from lib import semcheck

POOL = list(range(701, 761))
PROFILES = ["debug", "release"]
HAND_DIR = os.path.join(ROOT, "pools", "regalloc")
QUICK_MAX_OPS = 300          # generated-pool functions validated in the quick tier
QUICK_MAX_OPS_HAND = 4000    # spill-heavy hand-written programs in the quick tier
MAX_OPS = 40000              # beyond this a function is not validated (counted, listed in the evidence)
SHARD_OPS = 30000
SHARD_RECS = 600
BUILD_PROCS = 4
TLC_PROCS = 4


# ------------------------------------------------------------------ building with tracing
def hand_programs():
    out = []
    for p in sorted(glob.glob(os.path.join(HAND_DIR, "*.sw"))):
        out.append({"id": os.path.basename(p)[:-3], "kind": "hand", "files": {"src/main.sw": open(p).read()}})
    return out


def corpus_programs():
    """e2e corpus programs named in pools/regalloc/corpus.txt (a fixed, triaged list)."""
    lst = os.path.join(HAND_DIR, "corpus.txt")
    if not os.path.exists(lst):
        return []
    want = [l.strip() for l in open(lst) if l.strip() and not l.startswith("#")]
    from lib import corpus
    by_rel = {}
    for cat in ("run", "unit_tests_pass"):
        for p in corpus.programs(cat):
            by_rel[p["rel"]] = p
    out = []
    for i, rel in enumerate(want):
        p = by_rel.get(rel)
        if p is None:
            raise ToolError("corpus program %s (pools/regalloc/corpus.txt) not found in /repo" % rel)
        out.append({"id": "c%03d" % i, "kind": "corpus", "rel": rel, "files": p["files"], "manifest": p["manifest"]})
    return out


def _build_one(ctx, job):
    """One vh-exec process per (package, profile): the trace file then belongs to exactly this build."""
    jid = "%s_%s%s" % (job["id"], job["profile"], "_noasm" if job.get("noasm") else "")
    inp = os.path.join(ctx.work, "b-%s.in.ndjson" % jid)
    outp = os.path.join(ctx.work, "b-%s.out.ndjson" % jid)
    trace = os.path.join(ctx.work, "b-%s.trace.ndjson" % jid)
    rec = {"id": job["id"], "files": job["files"], "profile": job["profile"], "run": False}
    if job.get("manifest"):
        rec["manifest"] = job["manifest"]
    if job.get("noasm"):
        rec["env"] = {"SWAY_VERIF_ASM_OPTS": ""}      # hook H3: no asm-level optimizations -> MOVEs reach the allocator
    write_ndjson(inp, [rec])
    for p in (outp, trace):
        if os.path.exists(p):
            os.remove(p)
    t = time.time()
    try:
        p = ctx.vh("vh-exec", ["--in", inp, "--out", outp, "--work", os.path.join(ctx.work, "pk-" + jid),
                               "--pkg-timeout", 900], env={"SWAY_VERIF_TRACE": trace}, check=False, timeout=1200)
        rc, err = p.returncode, p.stderr[-1500:]
    except ToolError as e:
        rc, err = -9, str(e)
    evs = read_ndjson(outp) if os.path.exists(outp) else []
    built = [e for e in evs if e["ev"] == "Built"]
    ok = rc == 0 and built and built[-1].get("ok")
    detail = ""
    if not ok:
        b = built[-1] if built else {}
        diag = b.get("diag") or ""
        errs = [x.strip() for x in diag.split("____") if x.strip().startswith("error")]
        detail = ("rc=%s %s %s %s" % (rc, b.get("panic") or "", b.get("err") or "", " | ".join(errs[:2]) or diag[-600:])).strip() or err
    tevs = read_ndjson(trace) if os.path.exists(trace) else []
    for p in (inp, trace):
        if os.path.exists(p):
            os.remove(p)
    return {"job": job, "ok": bool(ok), "detail": detail, "events": tevs, "wall": time.time() - t}


# ------------------------------------------------------------------ events -> records (mechanical renaming)
def _vkey(n):
    m = re.match(r"^\$r(\d+)$", n)
    return (0, int(m.group(1)), n) if m else (1, 0, n)


def _phys(p):
    if p is None:
        return -1
    m = re.match(r"^\$r(\d+)$", p)
    return int(m.group(1)) if m else -2      # -2: not a register of the pool at all (InPool rejects it)


def _rename(names):
    order = sorted(names, key=_vkey)
    return order, {n: i + 1 for i, n in enumerate(order)}


def _ops(evops, idx):
    return [{"d": [idx[x] for x in o["d"]], "u": [idx[x] for x in o["u"]], "s": o["s"],
             "mv": idx[o["mv"]] if o["mv"] is not None else 0} for o in evops]


def _names_of(evops):
    names = set()
    for o in evops:
        names.update(o["d"]); names.update(o["u"])
        if o["mv"] is not None:
            names.add(o["mv"])
    return names


def _rec(body, order, src, k, stage):
    h = hashlib.sha256(json.dumps(body, separators=(",", ":"), sort_keys=True).encode()).hexdigest()[:16]
    return {"h": h, "body": body, "names": order, "src": dict(src, fn=k, stage=stage), "nops": len(body["ops"]),
            "nspill": sum(len(s["slots"]) for s in body["spills"]), "rounds": len(body["spills"])}


def to_records(events, src):
    """Trace events of one build -> trace records, two per allocated function:
      stage "post": the RegAlloc event (ops after MOVE coalescing, final assignment) with the spill rounds (the
                    Spill events since the previous RegAlloc event);
      stage "pre":  the ops the successful colouring attempt started from (the last Coalesce event before the
                    RegAlloc event) with the composed assignment  v -> assign[map(v)]  (map = coalescing map).
    Mechanical renaming only: register names -> 1..V in numeric order, "$rN" -> N, null/absent -> -1, no MOVE -> 0."""
    recs, pend, coal, k = [], [], None, 0
    for e in events:
        if e["ev"] == "Spill":
            pend.append(e)
            continue
        if e["ev"] == "Coalesce":
            coal = e
            continue
        if e["ev"] != "RegAlloc":
            continue
        order, idx = _rename(set(e["assign"].keys()) | _names_of(e["ops"]))
        spills, key = [], 0
        for sp in pend:
            sl = []
            for n, off in sorted(sp["slots"].items(), key=lambda x: (x[1], x[0])):
                key += 1
                sl.append([key, off])
            spills.append({"locals": sp["locals"], "slots": sl})
        body = {"ops": _ops(e["ops"], idx), "asg": [_phys(e["assign"].get(n)) for n in order], "spills": spills}
        recs.append(_rec(body, order, src, k, "post"))
        if coal is not None:
            m = coal["map"]
            order0, idx0 = _rename(_names_of(coal["ops"]) | set(m.keys()))
            body0 = {"ops": _ops(coal["ops"], idx0), "asg": [_phys(e["assign"].get(m.get(n, n))) for n in order0],
                     "spills": []}
            r0 = _rec(body0, order0, src, k, "pre")
            r0["coalesced"] = len(m)
            recs.append(r0)
        pend, coal = [], None
        k += 1
    return recs


# ------------------------------------------------------------------ TLC trace validation
def _shards(recs):
    recs = sorted(recs, key=lambda r: (r["nops"], r["h"]))
    out, cur, n = [], [], 0
    for r in recs:
        if cur and (n + r["nops"] > SHARD_OPS or len(cur) >= SHARD_RECS):
            out.append(cur); cur, n = [], 0
        cur.append(r); n += r["nops"]
    if cur:
        out.append(cur)
    return out


def _timeout_for(shard):
    big = max(r["nops"] for r in shard)
    return int(600 + 60 * (big / 5000.0) ** 2 + sum(r["nops"] for r in shard) / 50)


def _validate_shard(ctx, si, shard, cfg="Trace_RegAlloc", tag="ra", stop_at_first=False):
    """-> (validated records, rejections [(rec, verdict, witness)], timed_out records); continues after a rejection."""
    validated, rej, chunk, rnd = [], [], list(shard), 0
    while chunk:
        rnd += 1
        tp = os.path.join(ctx.work, "%s-%d-%d.ndjson" % (tag, si, rnd))
        write_ndjson(tp, [r["body"] for r in chunk])
        try:
            tr = ctx.tlc_trace("Trace_RegAlloc", cfg, tp, name="%s-%d-%d" % (tag, si, rnd), timeout=_timeout_for(chunk),
                               xmx="3g")
        except ToolError as e:
            if "timeout" in str(e):
                log("[C08] shard %d: %s -- %d functions (largest %d ops) not validated" % (si, e, len(chunk), chunk[-1]["nops"]))
                return validated, rej, chunk
            raise
        finally:
            if os.path.exists(tp):
                os.remove(tp)
        if tr.violated is None:
            validated += chunk
            break
        m = re.search(r'<<"FIRST-UNMATCHED", (\d+), "(\w+)", (<<.*?>>)>>', tr.out)
        if tr.violated != "postcondition" or not m:
            raise ToolError("Trace_RegAlloc failed unexpectedly (%s); see work/%s/tlc-%s-%d-%d.out" % (tr.violated, ctx.pid, tag, si, rnd))
        k = int(m.group(1))
        wit = [int(x) for x in re.findall(r"-?\d+", m.group(3))]
        validated += chunk[:k - 1]
        rej.append((chunk[k - 1], m.group(2), wit))
        chunk = [] if stop_at_first else chunk[k:]
    return validated, rej, []


def validate(ctx, recs, cfg="Trace_RegAlloc", tag="ra"):
    shards = _shards(recs)
    with ThreadPoolExecutor(max_workers=TLC_PROCS) as ex:
        res = list(ex.map(lambda a: _validate_shard(ctx, a[0], a[1], cfg, tag), enumerate(shards)))
    return [r for x in res for r in x[0]], [r for x in res for r in x[1]], [r for x in res for r in x[2]], len(shards)


def describe(rec, verdict, wit):
    names = rec["names"]
    d = {"verdict": verdict, "source": rec["src"], "nops": rec["nops"]}
    if verdict == "NoClobber" and len(wit) == 4:
        i, a, b, ph = wit
        d.update({"position": i, "written": names[a - 1], "destroyed": names[b - 1], "shared_physical": "$r%d" % ph,
                  "op": rec["body"]["ops"][i]})
    return d


# ------------------------------------------------------------------ model checking part
def model_check(ctx):
    cov = {}
    main_cfgs = ["MC_RegAlloc_q"] if ctx.quick else ["MC_RegAlloc", "MC_RegAlloc_4", "MC_RegAlloc_rand"]
    for cfg in main_cfgs:
        mc = ctx.tlc("MC_RegAlloc", cfg, workers=3, coverage=True, timeout=3000,
                     tlc_seed=11)          # fixes the RandomElement draws: the random programs are a fixed pool
        if mc.violated:
            ctx.report("model:%s:%s" % (cfg, mc.violated), "MC_RegAlloc (%s): %s is violated: NoClobber does not imply "
                       "that the allocated run equals the virtual-register run" % (cfg, mc.violated),
                       {"tlc": mc.counterexample()[:6000]})
        for k, v in mc.coverage_actions().items():
            cov[k] = [cov.get(k, [0, 0])[0] + v[0], cov.get(k, [0, 0])[1] + v[1]]
    live = ctx.tlc("MC_RegAlloc", "MC_RegAlloc_liveq" if ctx.quick else "MC_RegAlloc_live", workers=2, timeout=3000, tlc_seed=11)
    if live.violated:
        ctx.report("model:live:%s" % live.violated, "the least-fixpoint liveness of RegAlloc.tla differs from path liveness",
                   {"tlc": live.counterexample()[:6000]})
    # anti-vacuity: the theorem must fail for weakened rules, and the MOVE exemption must be needed
    expect = {"MC_RegAlloc_bothlive": "AllocatedRunAgrees", "MC_RegAlloc_moveall": "AllocatedRunAgrees",
              "MC_RegAlloc_noexempt": "ExemptionNeeded"}
    mutants = {}
    for cfg, inv in expect.items():
        r = ctx.tlc("MC_RegAlloc", cfg, workers=1, count=False, timeout=1200)
        mutants[cfg] = r.violated
        if r.violated != inv:
            raise ToolError("anti-vacuity: %s should violate %s but TLC reported %s" % (cfg, inv, r.violated))
    never = [a for a, v in cov.items() if a.startswith("Step") and v[1] == 0]
    if never:
        raise ToolError("anti-vacuity: actions never taken in MC_RegAlloc: %s" % never)
    return cov, mutants


# ------------------------------------------------------------------ binding self-tests on real traces
def corrupt_one(rec):
    """Make two registers used by one instruction share a physical register (mechanical edit of the recorded
    assignment; whether that is a clobber is for Trace_RegAlloc to say)."""
    body = rec["body"]
    for o in body["ops"]:
        us = sorted(set(o["u"]))
        if len(us) >= 2 and body["asg"][us[0] - 1] != body["asg"][us[1] - 1] and min(body["asg"][us[0] - 1], body["asg"][us[1] - 1]) >= 0:
            nb = json.loads(json.dumps(body))
            nb["asg"][us[0] - 1] = body["asg"][us[1] - 1]
            return dict(rec, body=nb, h=rec["h"] + "-corrupt")
    return None


def self_tests(ctx, recs):
    """Corrupt recorded traces / weaken the spec and require Trace_RegAlloc to reject (exit 2 if it does not)."""
    res = {}
    cands = [r for r in sorted(recs, key=lambda r: (-r["nspill"], -r["nops"], r["h"])) if r["nops"] <= 2500]
    bad = None
    for r in cands:
        bad = corrupt_one(r)
        if bad:
            break
    if not bad:
        raise ToolError("self-test: no function with two registers used by one instruction")
    tests = [("corrupt", [bad], "Trace_RegAlloc", "NoClobber")]
    for r in cands:
        if r["src"]["stage"] == "pre" and r.get("coalesced"):
            badpre = corrupt_one(r)          # the same edit on a pre-coalescing view = a wrong merge / wrong colour
            if badpre:
                tests.append(("corruptpre", [badpre], "Trace_RegAlloc", "NoClobber"))
                break
    sp = [r for r in cands if r["nspill"] >= 2]
    if sp:
        r = sp[0]
        nb = json.loads(json.dumps(r["body"]))
        sl = nb["spills"][0]["slots"]
        sl[1][1] = sl[0][1]                       # two spilled registers in one slot
        tests.append(("slot", [dict(r, body=nb)], "Trace_RegAlloc", "SpillDisjoint"))
    # the MOVE exemption is exercised by real traces: without it the recorded allocation of move_kept
    # (asm-level optimizations off) must be rejected
    mk = [r for r in recs if r["src"]["pkg"] == "move_kept" and r["src"].get("noasm") and r["src"]["profile"] == "release"]
    mk_post = sorted([r for r in mk if r["src"]["stage"] == "post"], key=lambda r: r["src"]["fn"])
    if mk_post:
        tests.append(("noexempt_post", mk_post, "Trace_RegAlloc_noexempt", "NoClobber"))
    # ... and on default builds by the MOVEs that coalescing removed (pre-coalescing ops, composed assignment)
    def same_reg_moves(r):
        a = r["body"]["asg"]
        return sum(1 for o in r["body"]["ops"] if o["mv"] and o["d"] and a[o["d"][0] - 1] == a[o["mv"] - 1])
    pre = [r for r in recs if r["src"]["stage"] == "pre" and not r["src"].get("noasm") and r["nops"] <= 2500 and same_reg_moves(r)]
    pre = sorted(pre, key=lambda r: (-same_reg_moves(r), r["nops"], r["h"]))[:12]
    if pre:
        tests.append(("noexempt_pre", pre, "Trace_RegAlloc_noexempt", "NoClobber"))

    def one(t):
        tag, rs, cfg, want = t
        _v, rej, _t = _validate_shard(ctx, 0, rs, cfg=cfg, tag="self" + tag, stop_at_first=True)
        return tag, rej, want
    with ThreadPoolExecutor(max_workers=4) as ex:
        outs = list(ex.map(one, tests))
    for tag, rej, want in outs:
        if not rej or rej[0][1] != want:
            raise ToolError("binding self-test '%s' failed: Trace_RegAlloc did not reject with %s (got %s)" % (
                tag, want, [x[1] for x in rej]))
        res[tag + "_rejected"] = describe(rej[0][0], rej[0][1], rej[0][2])
    return res


# ------------------------------------------------------------------ driver
def jobs_for(ctx):
    """The deterministic pool of builds.  quick: a seed-selected slice."""
    jobs = []
    gen_seeds = slice_for_seed(POOL, ctx.seed, 4) if ctx.quick else POOL
    noasm_seeds = gen_seeds[:1] if ctx.quick else POOL[::6]
    for s in gen_seeds:
        p = semcheck.gen_package(s)
        for prof in PROFILES:
            jobs.append({"id": p["id"], "kind": "gen", "seed": s, "files": {"src/main.sw": p["src"]}, "profile": prof})
            if s in noasm_seeds:
                jobs.append({"id": p["id"], "kind": "gen", "seed": s, "files": {"src/main.sw": p["src"]}, "profile": prof,
                             "noasm": True})
    for h in hand_programs():
        if ctx.quick:
            if h["id"] == "spill_wide":
                continue
            jobs.append(dict(h, profile="release"))
            if h["id"] in ("move_kept", "spill_loop", "spill_calls"):
                jobs.append(dict(h, profile="release", noasm=True))
        else:
            for prof in PROFILES:
                jobs.append(dict(h, profile=prof))
                jobs.append(dict(h, profile=prof, noasm=True))
    if not ctx.quick:
        for c in corpus_programs():
            for prof in PROFILES:
                jobs.append(dict(c, profile=prof))
    # longest first, so that the tail of the build phase is short
    jobs.sort(key=lambda j: -sum(len(t) for t in j["files"].values()))
    return jobs, gen_seeds


def run(ctx):
    ctx.build_vh("vh-exec")
    jobs, gen_seeds = jobs_for(ctx)
    # the design-level model check runs beside the builds (its initial-state enumeration is single-threaded)
    bg = ThreadPoolExecutor(max_workers=1)
    mc_future = bg.submit(model_check, ctx)
    t = time.time()
    with ThreadPoolExecutor(max_workers=BUILD_PROCS) as ex:
        builds = list(ex.map(lambda j: _build_one(ctx, j), jobs))
    log("[C08] %d builds in %.0fs" % (len(builds), time.time() - t))
    failed = [b for b in builds if not b["ok"]]
    if failed:
        # the harness binary may have been rebuilt from a changing /repo tree while we ran: retry once, alone
        log("[C08] retrying %d failed builds: %s" % (len(failed), [(b["job"]["id"], b["job"]["profile"]) for b in failed][:8]))
        ctx._built.discard("vh-exec")
        ctx.build_vh("vh-exec")
        redo = {id(b["job"]): _build_one(ctx, b["job"]) for b in failed}
        builds = [redo.get(id(b["job"]), b) for b in builds]
        failed = [b for b in builds if not b["ok"]]
    # Hand-written programs are this check's own inputs and must build.  A generated or corpus package that does
    # not compile (for a reason that lies before register allocation) is skipped and listed in the evidence.
    must = [b for b in failed if b["job"]["kind"] == "hand"]
    if must or len(failed) * 5 > len(builds):
        mc_future.result()
        raise ToolError("pool packages that must build did not (%d of %d builds failed): " % (len(failed), len(builds)) + "; ".join(
            "%s/%s: %s" % (b["job"]["id"], b["job"]["profile"], b["detail"][:300]) for b in (must or failed)[:5]))
    not_built = [{"pkg": b["job"].get("rel") or b["job"]["id"], "profile": b["job"]["profile"], "noasm": bool(b["job"].get("noasm")),
                  "error": " ".join(b["detail"].split())[:240]} for b in failed]
    for nb in not_built:
        log("[C08] not built (skipped): %s" % nb)
    builds = [b for b in builds if b["ok"]]

    # records, dedupe, limits
    allrecs, leftover = [], 0
    for b in builds:
        j = b["job"]
        src = {"pkg": j.get("rel") or j["id"], "kind": j["kind"], "profile": j["profile"]}
        if j.get("noasm"):
            src["noasm"] = True
        allrecs += to_records(b["events"], src)
        if b["events"] and b["events"][-1]["ev"] == "Spill":
            leftover += 1
        b["events"] = None
    if leftover:
        raise ToolError("%d builds ended with Spill events not followed by an allocation" % leftover)
    total_fns = sum(1 for r in allrecs if r["src"]["stage"] == "post")
    if any(r["src"]["stage"] == "post" for r in allrecs) and not any(r["src"]["stage"] == "pre" for r in allrecs):
        raise ToolError("no Coalesce events in the traces: vh-exec was built without the H4 Coalesce hook")
    uniq = {}
    for r in allrecs:
        if r["nops"] == 0:
            continue
        uniq.setdefault(r["h"], r)
    recs = list(uniq.values())
    if ctx.quick:
        recs = [r for r in recs if r["nops"] <= (QUICK_MAX_OPS if r["src"]["kind"] == "gen" else QUICK_MAX_OPS_HAND)]
    too_big = [r for r in recs if r["nops"] > MAX_OPS]
    recs = [r for r in recs if r["nops"] <= MAX_OPS]

    validated, rej, timed_out, nshards = validate(ctx, recs)
    log("[C08] %d distinct functions (%d recorded): %d validated, %d rejected, %d not validated (timeout), %d too large" % (
        len(uniq), total_fns, len(validated), len(rej), len(timed_out), len(too_big)))
    for rec, verdict, wit in rej:
        d = describe(rec, verdict, wit)
        s = rec["src"]
        ctx.report("fn:%s:%s%s:%d:%s:%s" % (s["pkg"], s["profile"], ":noasm" if s.get("noasm") else "", s["fn"], s["stage"], verdict),
                   "register allocation of function #%d of %s (%s%s; ops %s coalescing) violates %s: %s" % (
                       s["fn"], s["pkg"], s["profile"], ", asm optimizations off" if s.get("noasm") else "", s["stage"], verdict,
                       json.dumps({k: v for k, v in d.items() if k not in ("source",)})[:400]),
                   {"diagnosis": d, "names": rec["names"], "record": rec["body"]})

    st = self_tests(ctx, validated) if validated else {}
    cov, mutants = mc_future.result()
    bg.shutdown()

    def moves(r):
        return sum(1 for o in r["body"]["ops"] if o["mv"] and o["d"])

    def same_reg_moves(r):
        a = r["body"]["asg"]
        return sum(1 for o in r["body"]["ops"] if o["mv"] and o["d"] and a[o["d"][0] - 1] == a[o["mv"] - 1])
    pre = [r for r in validated if r["src"]["stage"] == "pre"]
    post = [r for r in validated if r["src"]["stage"] == "post"]
    spilled = [r for r in validated if r["rounds"] > 0]
    sample = sorted(validated, key=lambda r: (-r["nspill"], -r["nops"]))[:3] + sorted(validated, key=lambda r: r["nops"])[-2:]
    return ctx.finish("model_checking", {
        "traces_validated_against_impl": len(validated),
        "functions_recorded": total_fns, "distinct_functions": len(uniq), "functions_validated": len(validated),
        "ops_validated": sum(r["nops"] for r in validated),
        "largest_function_ops": max([r["nops"] for r in validated] or [0]),
        "functions_with_spilling": len(spilled), "spill_rounds": sum(r["rounds"] for r in spilled),
        "spill_slots": sum(r["nspill"] for r in spilled),
        "functions_validated_post_coalescing": len(post), "functions_validated_pre_coalescing": len(pre),
        "register_to_register_moves_before_coalescing": sum(moves(r) for r in pre),
        "of_which_destination_and_source_share_a_register": sum(same_reg_moves(r) for r in pre),
        "registers_merged_by_coalescing": sum(r.get("coalesced", 0) for r in pre),
        "register_to_register_moves_surviving_coalescing": sum(moves(r) for r in post),
        "max_physical_registers_in_one_function": max([len(set(r["body"]["asg"])) for r in validated] or [0]),
        "functions_not_validated_too_large": [{"src": r["src"], "nops": r["nops"]} for r in too_big],
        "functions_not_validated_tlc_timeout": [{"src": r["src"], "nops": r["nops"]} for r in timed_out],
        "packages_skipped_not_building": not_built,
        "builds": len(builds), "builds_with_asm_optimizations_off": sum(1 for j in jobs if j.get("noasm")), "shards": nshards,
        "generated_seeds": gen_seeds, "hand_written": sorted({j["id"] for j in jobs if j["kind"] == "hand"}),
        "corpus_programs": sorted({j["rel"] for j in jobs if j["kind"] == "corpus"}),
        "action_coverage": cov, "mutant_rules_violate": mutants, "binding_self_tests": st,
        "samples": [{"source": r["src"], "nops": r["nops"], "vregs": len(r["names"]), "spill_slots": r["nspill"],
                     "physical_used": len(set(r["body"]["asg"]))} for r in sample],
    }, assumptions=[
        "def/use/successor sets are those the compiler computes (Op::def_registers, use_registers, successors): an error "
        "there is invisible to this check (C01/C02 observe it behaviourally on the same spill-heavy programs)",
        "only virtual registers are recorded; constant registers ($$locbase, $$arg*, $$retv, scratch) live outside the "
        "allocatable pool, which InPool (0..36) checks",
        "the design-level theorem is model-checked for 3 virtual / 2 physical registers and programs of <= 3 instructions "
        "(exhaustive) plus fixed-seed random longer programs; registers start equal (0) in both runs",
        "builds with SWAY_VERIF_ASM_OPTS='' (hook H3) disable the asm-level optimizer so that register-to-register MOVEs "
        "reach the allocator; they are additional inputs to the same allocator code",
    ])


def replay(path):
    v = json.load(open(path))
    print(json.dumps({k: v[k] for k in ("property", "key", "what")}, indent=1))
    print(json.dumps(v["replay"].get("diagnosis"), indent=1))
    rec = v["replay"].get("record")
    if rec:
        ctx = Ctx("C08-replay", "quick", 0)
        tp = os.path.join(ctx.work, "replay.ndjson")
        write_ndjson(tp, [rec])
        tr = ctx.tlc_trace("Trace_RegAlloc", "Trace_RegAlloc", tp, name="replay")
        m = re.search(r'<<"FIRST-UNMATCHED".*', tr.out)
        print("Trace_RegAlloc:", m.group(0) if m else "accepted")
        return 1 if m else 0
    return 0
