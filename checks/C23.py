"""C23 LSP document sync reproduces the client's text — LspDoc.tla + vh-lspdoc.

1. TLC model-checks LspDoc on *every* document of <= MaxLen scalars over {a, é, €, 𝄞, \\n, \\r} and every
   change of the EditsOf family: the line/position arithmetic is consistent (LinesTile,
   MonotoneResolve), the scalar-level Outcome equals what a UTF-16 client computes on its code-unit
   buffer (ClientAgrees), and the repaired server algorithm on UTF-8 bytes conforms (ServerConforms).
   Self-test: with Algo = "byteadd" (sway-lsp before the fix) TLC must report ServerConforms violated.
2. TLC (Gen_LspDoc) enumerates histories breadth-first (depth 1: 12 documents x all changes; depth 2)
   and draws fixed-seed simulation histories of 30 changes on 21..40-scalar documents.
3. vh-lspdoc replays every history through the real sway-lsp (Documents::update_text_document,
   write_changes_to_file, notification::handle_did_change_text_document) under catch_unwind and
   records (before, changes, after, err, panic, file) after every notification.
4. Trace_LspDoc.tla accepts a record iff it is a step of LspDoc's actions; the first unmatched record
   of a shard is a violation (and the rest of the shard is still checked).
"""
import json, os, concurrent.futures as cf
from lib.common import *

ACTIONS = ["Full", "NIncremental", "NInvalid", "NLenient", "NUnspecified"]
SIM_SEEDS = [11, 23, 37]


def _hist_key(h):
    return json.dumps(h, separators=(",", ":"), sort_keys=True)


def _records(res):
    """REPLAY records of one generator run -> deterministic, de-duplicated list of histories."""
    seen = {}
    for r in res.printed("REPLAY"):
        seen.setdefault(_hist_key(r["h"]), r["h"])
    return [seen[k] for k in sorted(seen)]


def _key(ev):
    txt = lambda cps: ".".join(str(c) for c in cps)
    chg = ";".join(("F" if c["full"] else "R" + ",".join(str(x) for x in c["r"])) + "=" + txt(c["t"])
                   for c in ev["changes"])
    return "%s:%s:doc=%s:%s" % (ev["via"], ev["k"], txt(ev["before"]), chg)


def _show(cps):
    return "".join(chr(c) for c in cps).encode("unicode_escape").decode()


def _describe(ev, spec):
    res = "PANIC " + ev.get("msg", "") if ev["panic"] else ("Err" if ev["err"] else "Ok")
    onfile = ""
    if ev.get("hasfile") and not ev["err"] and ev["file"] != ev["after"]:
        onfile = ", file on disk holds '%s'" % _show(ev["file"])
    return ("sway-lsp (%s) on document '%s', changes %s -> %s, text '%s'%s; the specification says %s"
            % (ev["via"], _show(ev["before"]),
               [("full" if c["full"] else c["r"], _show(c["t"])) for c in ev["changes"]],
               res, _show(ev["after"]), onfile, spec))


def _validate(ctx, events, name, shard=60000, workers=4):
    """Trace-validate events with Trace_LspDoc in parallel shards. Returns (validated, rejected list)."""
    shards = []
    pos = 0
    while pos < len(events):
        end = min(len(events), pos + shard)
        # cut at a history boundary so that continuity is checked inside every history
        while end < len(events) and events[end]["i"] != 0:
            end += 1
        shards.append((len(shards), events[pos:end]))
        pos = end

    def one(job):
        n, chunk = job
        ok, bad, states = 0, [], 0
        rnd = 0
        while chunk:
            tp = os.path.join(ctx.work, "trace-%s-%d.ndjson" % (name, n))
            write_ndjson(tp, chunk)
            tr = ctx.tlc_trace("Trace_LspDoc", "Trace_LspDoc", tp, name="trace-%s-%d-%d" % (name, n, rnd),
                               count=False)
            rnd += 1
            states += tr.distinct
            if tr.violated is None:
                ok += len(chunk)
                break
            k = tr.first_unmatched()
            if tr.violated != "postcondition" or k is None:
                raise ToolError("trace validation failed unexpectedly (%s), see work/C23/tlc-trace-%s-%d-%d.out"
                                % (tr.violated, name, n, rnd - 1))
            bad.append((chunk[k - 1], tr.out))
            ok += k - 1
            chunk = chunk[k:]
            if len(bad) >= 25:          # a broken build: do not spend an hour enumerating every failure
                break
        return ok, bad, states

    validated, rejected = 0, []
    with cf.ThreadPoolExecutor(max_workers=workers) as ex:
        for ok, bad, states in ex.map(one, shards):
            validated += ok
            rejected += bad
            ctx.tlc_states += states
            ctx.tlc_transitions += states
    return validated, rejected


def _spec_says(tlc_out):
    import re
    m = re.search(r'<<"FIRST-UNMATCHED", \d+, "(.*)">>', tlc_out)
    if not m:
        return "?"
    try:
        j = json.loads(m.group(1).replace('\\"', '"').replace("\\\\", "\\"))
        s = j["spec"]
        if s.get("k") in ("apply", "either"):
            return "%s (%s): text '%s'" % (s["k"], s.get("why"), _show(s["doc"]))
        return "%s (%s)%s" % (s.get("k"), s.get("why"), "" if j.get("continues", True) else "")
    except Exception:
        return m.group(1)[:300]


def run(ctx):
    q = ctx.quick
    # ------------------------------------------------------------------ 1. the model
    mc = ctx.tlc("MC_LspDoc", "MC_LspDoc" if q else "MC_LspDoc4", workers=4, coverage=True, xss="256m",
                 timeout=3000)
    if mc.violated:
        ctx.report("model:" + mc.violated, "LspDoc.tla / the repaired algorithm violates " + mc.violated,
                   {"tlc": mc.counterexample()[:4000], "printed": [l for l in mc.out.splitlines()
                                                                      if "DEVIATES" in l or "DISAGREES" in l][:5]})
    cov = mc.coverage_actions()
    dead = [a for a in ACTIONS if cov.get(a, (0, 0))[1] == 0]
    if dead:
        raise ToolError("vacuous model: actions never taken: %s" % dead)
    # self-test: the pre-fix algorithm (F5) must be caught by the same invariant
    f5 = ctx.tlc("MC_LspDoc", "MC_LspDocF5", workers=1, xss="256m", count=False, name="F5")
    if f5.violated != "ServerConforms":
        raise ToolError("self-test failed: ServerConforms does not reject the byte-offset algorithm (F5)")
    f5cex = [l for l in f5.out.splitlines() if "SERVER-DEVIATES" in l][:1]

    # ------------------------------------------------------------------ 2. replay records
    jobs = [("g1", dict(module="Gen_LspDoc", cfg="Gen_LspDoc1", workers=1, xss="256m", count=False)),
            ("g2", dict(module="Gen_LspDoc", cfg="Gen_LspDoc2q" if q else "Gen_LspDoc2", workers=2, xss="256m",
                        count=False, xmx="6g"))]
    nsim = 120 if q else 500
    for s in (SIM_SEEDS[:1] if q else SIM_SEEDS):
        jobs.append(("s%d" % s, dict(module="Gen_LspDoc", cfg="Gen_LspDocSim", workers=1, xss="256m", count=False,
                                     simulate=nsim, depth=32, tlc_seed=s, name="GenSim%d" % s)))
    with cf.ThreadPoolExecutor(max_workers=3 if q else 4) as ex:
        futs = {n: ex.submit(lambda kw=kw: ctx.tlc(kw.pop("module"), kw.pop("cfg"), **kw)) for n, kw in jobs}
        gens = {n: f.result() for n, f in futs.items()}
    pools = {n: _records(r) for n, r in gens.items()}
    for n, r in gens.items():
        ctx.tlc_states += r.distinct or r.generated
        ctx.tlc_transitions += r.generated
        if not pools[n]:
            raise ToolError("generator %s printed no replay record" % n)
    h1, h2 = pools["g1"], pools["g2"]
    hsim = [h for n in sorted(pools) if n.startswith("s") for h in pools[n]]
    pool_sizes = {"depth1": len(h1), "depth2": len(h2), "simulation": len(hsim)}
    if q:   # VERIF_SEED selects which slice of the (fixed) pools is replayed
        h1 = slice_for_seed(h1, ctx.seed, 8000)
        h2 = slice_for_seed(h2, ctx.seed, 16000)
    hist = [{"id": i, "h": h} for i, h in enumerate(h1 + h2 + hsim)]
    inp = os.path.join(ctx.work, "histories.ndjson")
    write_ndjson(inp, hist)

    # ------------------------------------------------------------------ 3. the real code
    docs = os.path.join(ctx.work, "docs")
    evp = os.path.join(ctx.work, "events.ndjson")
    p = ctx.vh("vh-lspdoc", ["--in", inp, "--out", evp, "--dir", docs, "--open-every", 40, "--file-every", 40,
                             "--batch-every", 5])
    log("[C23] " + p.stderr.strip().splitlines()[-1])
    events = read_ndjson(evp)
    # whole didChange notifications through the handler, on a real (tiny) workspace
    proj = os.path.join(ctx.work, "proj")
    os.makedirs(os.path.join(proj, "src"), exist_ok=True)
    with open(os.path.join(proj, "Forc.toml"), "w") as f:
        f.write('[project]\nauthors = ["verif"]\nentry = "main.sw"\nlicense = "Apache-2.0"\n'
                'name = "c23proj"\nimplicit-std = false\n')
    with open(os.path.join(proj, "src", "main.sw"), "w") as f:
        f.write("script;\nfn main() {}\n")
    home = os.path.join(ctx.work, "home")
    os.makedirs(home, exist_ok=True)
    hh = slice_for_seed(hist, ctx.seed, 150 if q else 1500)
    hin = os.path.join(ctx.work, "histories-handler.ndjson")
    write_ndjson(hin, hh)
    hev = os.path.join(ctx.work, "events-handler.ndjson")
    p = ctx.vh("vh-lspdoc", ["--in", hin, "--out", hev, "--dir", docs, "--project", proj], env={"HOME": home})
    log("[C23] handler: " + p.stderr.strip().splitlines()[-1])
    hevents = read_ndjson(hev)

    # ------------------------------------------------------------------ 4. the TLA+ side decides
    validated, rejected = _validate(ctx, events, "doc")
    v2, r2 = _validate(ctx, hevents, "handler", workers=2)
    validated += v2
    rejected += r2
    for ev, out in rejected:
        ctx.report(_key(ev), _describe(ev, _spec_says(out)), {"event": ev, "specification": _spec_says(out)})

    # ------------------------------------------------------------------ 5. binding self-test
    selftest = binding_selftest(ctx, events, hist)

    kinds = {}
    for e in events + hevents:
        kinds[e["via"] + ":" + e["k"]] = kinds.get(e["via"] + ":" + e["k"], 0) + 1
    sample = [e for e in events if e["k"] == "change" and not e["changes"][0]["full"]]
    return ctx.finish("model_checking", {
        "traces_validated_against_impl": validated,
        "exhaustive": True,
        "histories_replayed": len(hist), "histories_through_handler": len(hh),
        "pool_sizes": pool_sizes, "events_by_path": kinds,
        "events_err": sum(1 for e in events + hevents if e["err"]),
        "events_panic": sum(1 for e in events + hevents if e["panic"]),
        "constants": {"MaxLen": 3 if q else 4, "alphabet": "a é € 𝄞 \\n \\r", "sim_seeds": SIM_SEEDS[:1] if q else SIM_SEEDS,
                      "sim_behaviours_per_seed": nsim, "sim_changes_per_history": 30},
        "action_coverage": cov,
        "selftests": {"F5_algorithm_rejected_by": f5.violated, "F5_counterexample": f5cex, **selftest},
        "samples": sample[:2] + sample[len(sample) // 2: len(sample) // 2 + 2] + hevents[-2:],
    }, assumptions=[
        "positions are UTF-16 code units (sway-lsp negotiates no positionEncoding)",
        "client-defined cases are only required not to crash: position inside a surrogate pair, any ranged change "
        "on a document containing a lone CR, a character beyond the visible end of a CRLF-terminated line",
        "(line >= line count, character 0) may be rejected or taken as end-of-document; a reversed range whose ends "
        "clamp to the same offset may be rejected or applied",
        "model checking is exhaustive for documents of <= MaxLen scalars over a 6-symbol alphabet and the EditsOf "
        "family (texts of <= 1 scalar); histories: depth 1 and 2 exhaustive for the configured families, longer "
        "ones a fixed-seed simulation pool",
        "the document store is driven directly (Documents / the didChange handler on one ServerState); JSON-RPC "
        "framing and tower-lsp dispatch are not exercised",
    ])


def binding_selftest(ctx, events, hist):
    """Corrupt one field of a recorded, accepted trace (or lose one record): Trace_LspDoc must reject
    exactly there."""
    def determined(e):      # a single ranged change whose outcome the specification fixes completely
        return (e["k"] == "change" and not e["err"] and len(e["changes"]) == 1 and not e["changes"][0]["full"]
                and len(e["after"]) > 0 and e["after"] != e["before"] and hist[e["h"]]["h"][e["i"]]["x"] == "apply")
    idx = next((i for i, e in enumerate(events) if i > 10 and determined(e)), None)
    # a record in the middle of a history (for the lost-notification case)
    mid = next((i for i, e in enumerate(events) if i > 10 and determined(e) and i + 1 < len(events)
                and events[i + 1]["h"] == e["h"] and events[i + 1]["i"] == e["i"] + 1), None)
    if idx is None or mid is None:
        raise ToolError("binding self-test: no suitable record")
    res = {}
    for what in ("after", "err", "drop"):
        at = mid if what == "drop" else idx
        lo = at - 10
        mut = json.loads(json.dumps(events[lo:at + 3]))
        k = at - lo
        if what == "after":
            mut[k]["after"][0] = 98 if mut[k]["after"][0] != 98 else 99      # one code point changed
        elif what == "err":
            mut[k]["err"] = True                                           # error reported, text changed
        else:
            del mut[k]                                                     # one notification lost
        tp = os.path.join(ctx.work, "selftest-%s.ndjson" % what)
        write_ndjson(tp, mut)
        tr = ctx.tlc_trace("Trace_LspDoc", "Trace_LspDoc", tp, name="selftest-" + what, count=False)
        if tr.violated != "postcondition" or tr.first_unmatched() != k + 1:
            raise ToolError("binding self-test failed: corrupting `%s` at record %d was not rejected there (%s, %s)"
                            % (what, k + 1, tr.violated, tr.first_unmatched()))
        res["corrupt_%s_rejected" % what] = {"event_index": at, "rejected_at_record": k + 1}
    return res


def replay(path):
    """Re-run one violation: the recorded notification is sent to the real code again and the
    resulting record is validated by Trace_LspDoc."""
    v = json.load(open(path))
    ev = v["replay"].get("event")
    print(json.dumps(v, indent=1, ensure_ascii=False))
    if not ev:
        return 0
    ctx = Ctx("C23-replay", "quick", 0)
    h = [{"full": True, "r": [], "t": ev["before"], "x": "apply", "d": ev["before"]}] + \
        [dict(c, x="?", d=[]) for c in ev["changes"]]
    inp = os.path.join(ctx.work, "h.ndjson")
    write_ndjson(inp, [{"id": 0, "h": h}])
    out = os.path.join(ctx.work, "e.ndjson")
    args = ["--in", inp, "--out", out, "--dir", os.path.join(ctx.work, "docs"), "--open-every", 1]
    if ev["via"] == "file":
        args += ["--file-every", 1]
    if len(ev["changes"]) > 1:
        args += ["--batch-every", 1]
    ctx.vh("vh-lspdoc", args)
    evs = read_ndjson(out)
    for e in evs:
        print("real code now:", json.dumps(e, ensure_ascii=False))
    tr = ctx.tlc_trace("Trace_LspDoc", "Trace_LspDoc", out, name="replay", count=False)
    if tr.violated is None:
        print("Trace_LspDoc accepts the re-recorded trace (not reproduced)")
        return 0
    print("Trace_LspDoc rejects record", tr.first_unmatched(), ":", _spec_says(tr.out))
    return 1
