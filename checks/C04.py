"""C04 IR passes keep the IR well-formed.

Pipeline.tla has no state for "pass panicked" or "IR rejected by the verifier": a RunPass step is a step
only into a verified IR.  Every build of every generated program under the compiler's own pipelines and
under TLC-enumerated variants (PassOrder.tla) is recorded pass by pass (hook H2) with the repository's IR
verifier run after every pass with SSA dominance checking on (hook SWAY_VERIF_SSA_DOMINANCE);
Trace_Pipeline.tla accepts the recording only if every build is a behaviour (reaches the backend).
"""
import json
from lib.common import *
from lib import semcheck, pipecheck

POOL = list(range(401, 441))


def run(ctx):
    configs, _asm, tl = pipecheck.tlc_configs(ctx, 1)
    base = [c for c in configs if not c["edits"]]
    var = [c for c in configs if c["edits"]]
    if ctx.quick:
        seeds = slice_for_seed(POOL, ctx.seed, 3)
        configs = base + slice_for_seed(var, ctx.seed + 1, 24)
    else:
        seeds = slice_for_seed(POOL, ctx.seed, 8)
        two, _a, _t = pipecheck.tlc_configs(ctx, 2)
        configs = base + var + slice_for_seed([c for c in two if len(c["edits"]) == 2], ctx.seed, 120)
    pkgs = [semcheck.gen_package(s) for s in seeds]
    events, obs, failures, stats = pipecheck.build_events(ctx, pkgs, configs, procs=10, force_verify=True)
    for f in failures:
        ctx.report("%s:%s:%s" % (f["kind"], f["pkg"], ",".join(f["passes"])),
                   "%s after pass %s under pipeline %s: %s" % (f["kind"], f["last_pass_traced"], f["cfg"], f["detail"][:300]), f)
    pv, prej = pipecheck.validate_pipeline(ctx, events, check_rt=False)
    failed_keys = {(f["pkg"], f["cfg"]) for f in failures}
    for rj in prej:
        b = rj.get("build") or {}
        if (b.get("pkg"), b.get("cfg")) in failed_keys:
            continue
        ctx.report("pipeline:%s:%s" % (b.get("pkg"), b.get("cfg")), "recorded build is not a behaviour of Pipeline.tla: " + rj["why"], rj)
    mism = sum(1 for e in events if e["ev"] == "Pass" and e["modified"] != e["changed"])
    return ctx.finish("model_checking", {
        "traces_validated_against_impl": stats["builds"],
        "pipeline_events_validated": pv,
        "programs": len(pkgs), "pipeline_variants": len(configs), "builds": stats["builds"],
        "pass_executions_verified_with_ssa_dominance": stats["pass_events"],
        "pass_executions_that_modified_ir": stats["modifying_pass_events"],
        "per_pass_modified": stats["per_pass_modified"],
        "info_modified_flag_mismatches": mism,
        "failed_builds": len(failures),
        "samples": [e for e in events if e["ev"] == "Pass"][:3],
    }, assumptions=[
        "the verifier is the repository's own (sway-ir/src/verify.rs) with verify_ssa_dominance on; the model contributes the configuration space and the accept rule",
        "a `modified` flag that disagrees with the IR text is recorded as information only (the property does not state it)",
    ])


def replay(path):
    print(json.dumps(json.load(open(path)), indent=1)[:6000])
    return 0
