"""C26 Incremental (LSP) compilation agrees with a fresh compilation -- LspIncr.tla + vh-lspincr.

1. TLC model-checks LspIncr.tla exhaustively on small constants: the transcribed cache-validity rules
   (ImplObs) against compilation from scratch (SpecObs).  Agree does not hold; the invariants checked are that
   every disagreement is explained by a named mechanism (MechComplete / MechSound / NoUnlistedMechanism) plus
   structural facts about the rule (RecheckShape, ReopenReuses, TypedCurrentUnlessUncommitted).
2. For every mechanism the spec names, TLC (breadth first, one worker) looks for a shortest history that
   exhibits it (MC_LspIncr_ce.cfg, invariant TargetUnreachable).
3. TLC produces the pool of edit histories: all histories of <= 3 client actions (thorough), fixed-seed
   -simulate runs for longer ones, plus the counterexamples of step 2.
4. vh-lspincr replays every history into one long-lived real server (and every distinct text into a fresh real
   server) and records diagnostics, document symbols and reference resolution.
5. Trace_LspIncr.tla validates every record: real incremental = ImplObs, real fresh = SpecObs.  A rejected
   record is a violation ("deviates:...").  Where the two real observations differ the trace spec prints the
   mechanisms the model names; a mechanism found by step 2 whose counterexample was confirmed on the real server
   is reported under the key "mech:<name>" (known finding or violation).
"""
import json, os, subprocess, time, hashlib
from lib.common import *

MECHS = ["ReuseTypedSibling", "ReuseTypedDropsDiags", "CancelledEditStaleTyped", "FailedEditStaleTyped",
         "StaleTokensOtherFile", "DanglingDeclAfterGC"]
WHAT = {
    "ReuseTypedSibling": "a module that `use`s an item of an edited SIBLING module is not re-checked (cache "
                         "dependencies are submodules only): its new/changed diagnostics are missing (F14)",
    "ReuseTypedDropsDiags": "diagnostics of a reused (not re-checked) module are not re-emitted: after an edit "
                            "elsewhere the server's diagnostics lose the errors of every unedited module",
    "CancelledEditStaleTyped": "an edit whose compilation was cancelled commits nothing; the next edit of another "
                               "file sees that module's version as None => fresh and reuses its stale typed form, "
                               "so the cancelled edit is never compiled (F13)",
    "FailedEditStaleTyped": "an edit whose compilation failed (typed program unavailable) commits nothing; later "
                            "edits of other files reuse that module's stale typed form",
    "StaleTokensOtherFile": "only the modified file's tokens are re-collected: references in other files keep "
                            "pointing at the old position of a definition",
    "DanglingDeclAfterGC": "garbage collection of the edited module frees declaration slots still referenced by a "
                           "reused sibling's typed form; re-used slots make a later pass fail (typed program "
                           "unavailable, nothing committed) or the compilation thread panic",
}


def _mods_key(h):
    return ",".join(sorted(h["steps"][0]["text"].keys()))


def _norm_hist(r, hid):
    steps = []
    for s in r["steps"]:
        steps.append({"act": s["act"], "m": s["m"], "at": int(s.get("at") or 0), "chg": s.get("chg", ""),
                      "text": s["text"]})
    # a history may not end with a cancelled edit (the canceller is the next edit)
    while steps and steps[-1]["act"] == "EditCancelled":
        steps.pop()
    return {"id": hid, "steps": steps, "mech": r.get("mech", [])}


def _text_key(t):
    return hashlib.sha256(json.dumps(t, sort_keys=True).encode()).hexdigest()[:16]


def _run_parallel(ctx, jobs, timeout):
    """jobs: list of argv lists for vh-lspincr; run <= 4 at a time."""
    ctx.build_vh("vh-lspincr")
    env = dict(os.environ)
    env["TMPDIR"] = ctx.tmp
    env["HOME"] = os.path.join(ctx.work, "home")
    # did_change marks the file dirty through forc-util's pid lock files, which runs `ps -p <pid>` per lock file
    # (C25's subject).  procps scans /proc on every call; an equivalent shim keeps the replay fast.
    bindir = os.path.join(ctx.work, "bin")
    os.makedirs(bindir, exist_ok=True)
    with open(os.path.join(bindir, "ps"), "w") as f:
        f.write('#!/bin/sh\n# ps -p <pid>: print the pid if the process exists\n'
                'echo "    PID TTY          TIME CMD"\n[ -d "/proc/$2" ] && echo "$2 ?        00:00:00 x"\nexit 0\n')
    os.chmod(os.path.join(bindir, "ps"), 0o755)
    env["PATH"] = bindir + os.pathsep + env.get("PATH", "")
    env["RAYON_NUM_THREADS"] = "2"     # the token traversal's thread pool; 16 spinning threads per process only cost time
    os.makedirs(env["HOME"], exist_ok=True)
    running, todo, t0 = [], list(jobs), time.time()
    while todo or running:
        while todo and len(running) < 4:
            a = todo.pop(0)
            running.append((a, subprocess.Popen([ctx.vh_path("vh-lspincr")] + [str(x) for x in a], env=env,
                                                cwd=ctx.work, stdout=subprocess.DEVNULL, stderr=subprocess.PIPE,
                                                text=True, errors="replace")))
        for a, p in list(running):
            if p.poll() is not None:
                running.remove((a, p))
                if p.returncode != 0:
                    for _, q in running:
                        q.kill()
                    raise ToolError("vh-lspincr %s failed rc=%d:\n%s" % (a, p.returncode, p.stderr.read()[-3000:]))
        if time.time() - t0 > timeout:
            for _, q in running:
                q.kill()
            raise ToolError("vh-lspincr timeout (%ds)" % timeout)
        time.sleep(0.2)


def replay_histories(ctx, hists, tag, shards=3):
    """Replay histories on the real server; returns merged records (one per step, incr + fresh)."""
    root = os.path.join(ctx.work, "ws-" + tag)
    jobs, outs = [], []
    for i in range(shards):
        part = hists[i::shards]
        if not part:
            continue
        inp = os.path.join(ctx.work, "%s-hist%d.ndjson" % (tag, i))
        outp = os.path.join(ctx.work, "%s-incr%d.ndjson" % (tag, i))
        write_ndjson(inp, part)
        jobs.append(["--mode", "incr", "--in", inp, "--out", outp, "--root", os.path.join(root, "i%d" % i)])
        outs.append(outp)
    texts = {}
    for h in hists:
        for s in h["steps"]:
            texts.setdefault(_text_key(s["text"]), s["text"])
    tl = [{"tid": k, "text": v} for k, v in texts.items()]
    fouts = []
    nf = 2 if len(tl) > 40 else 1
    for i in range(nf):
        part = tl[i::nf]
        inp = os.path.join(ctx.work, "%s-texts%d.ndjson" % (tag, i))
        outp = os.path.join(ctx.work, "%s-fresh%d.ndjson" % (tag, i))
        write_ndjson(inp, part)
        jobs.append(["--mode", "fresh", "--in", inp, "--out", outp, "--root", os.path.join(root, "f%d" % i)])
        fouts.append(outp)
    _run_parallel(ctx, jobs, timeout=3000)
    fresh, wfp = {}, 0
    for f in fouts:
        for r in read_ndjson(f):
            if r.get("summary"):
                wfp += r["wait_for_parsing_timeouts"]
            else:
                fresh[r["tid"]] = r["fresh"]
    recs = {}
    for f in outs:
        for r in read_ndjson(f):
            if r.get("summary"):
                wfp += r["wait_for_parsing_timeouts"]
                continue
            r["cancelled"] = bool(r.get("cancelled"))
            r["at"] = int(r.get("at") or 0)
            r["chg"] = r.get("chg") or ""
            r["fresh"] = {"status": "skipped"} if r["cancelled"] else fresh[_text_key(r["text"])]
            recs.setdefault(r["id"], []).append(r)
    ordered = []
    for h in hists:
        ordered.append(recs.get(h["id"], []))
    return ordered, len(tl), wfp


def _shape_ok(o):
    """The trace spec needs arrays for syms/refs of every module; anything else is reported by the driver."""
    if o.get("status") != "ok":
        return True  # decided by the trace spec on status alone
    return all(isinstance(v, list) for v in o.get("syms", {}).values()) and \
        all(isinstance(v, list) for v in o.get("refs", {}).values())


def validate(ctx, groups, tag):
    """groups: list of per-history record lists.  Returns (validated_records, mech_seen{(id,k): [mechs]}, rejected)."""
    by_mods = {}
    for g in groups:
        if g:
            by_mods.setdefault(",".join(sorted(g[0]["text"].keys())), []).append(g)
    validated, mech_seen, rejected = 0, {}, []
    for mk, gs in by_mods.items():
        cfg = "Trace_LspIncr3" if mk == "a,b,main" else "Trace_LspIncr"
        if mk not in ("a,b,main", "a,b,c,main"):
            raise ToolError("no trace configuration for module set " + mk)
        pos, shard = 0, 400
        while pos < len(gs):
            chunk = gs[pos:pos + shard]
            pos += shard
            while chunk:
                flat = [r for g in chunk for r in g]
                tp = os.path.join(ctx.work, "trace-%s.ndjson" % tag)
                write_ndjson(tp, flat)
                tr = ctx.tlc_trace("Trace_LspIncr", cfg, tp, name="trace-%s-%s-%d" % (tag, cfg, pos))
                for line in tr.out.splitlines():
                    i = line.find('<<"MECH", ')
                    if i >= 0:
                        body = line[i + 10:].rstrip(">").strip()
                        # "id", k, "json"
                        parts = body.split(", ", 2)
                        hid, k = parts[0].strip('"'), int(parts[1])
                        ms = json.loads(parts[2].strip().strip(">").strip('"').replace('\\"', '"'))
                        mech_seen[(hid, k)] = ms
                if tr.violated is None:
                    validated += len(flat)
                    break
                k = tr.first_unmatched()
                if tr.violated != "postcondition" or k is None:
                    raise ToolError("trace validation failed unexpectedly: %s\n%s" % (tr.violated, tr.out[-3000:]))
                bad = flat[k - 1]
                validated += k - 1
                # display: the model's expectations for the failing history (Explain mode; nothing is required)
                gi = next(i for i, g in enumerate(chunk) if g and g[0]["id"] == bad["id"])
                ep = os.path.join(ctx.work, "explain.ndjson")
                write_ndjson(ep, chunk[gi])
                ex = ctx.tlc_trace("Trace_LspIncr", cfg + "_explain", ep, name="explain", count=False)
                expl = [l for l in ex.out.splitlines() if '"EXPLAIN"' in l]
                rejected.append((bad, expl))
                chunk = chunk[gi + 1:]
    return validated, mech_seen, rejected


def gen_histories(ctx):
    """The deterministic pool of histories (TLC enumeration + fixed-seed simulation)."""
    pool = []
    if not ctx.quick:
        allr = ctx.tlc("MC_LspIncr", "MC_LspIncr_all", workers=1, count=False, timeout=1500)
        pool += [("all", r) for r in allr.printed("REPLAY")]
    sims = [("MC_LspIncr_sim", 11, 450), ("MC_LspIncr_simc", 13, 450)] if ctx.quick else \
           [("MC_LspIncr_sim", 11, 500), ("MC_LspIncr_sim3", 12, 350), ("MC_LspIncr_simc", 13, 400),
            ("MC_LspIncr_simc6", 14, 200)]
    for cfg, seed, num in sims:
        r = ctx.tlc("MC_LspIncr", cfg, workers=1, simulate=num, depth=40, tlc_seed=seed, count=False,
                    name="%s-%d" % (cfg, seed), timeout=1500)
        pool += [("%s/%d" % (cfg, seed), x) for x in r.printed("REPLAY")]
    seen, hists = set(), []
    for src, r in pool:
        h = _norm_hist(r, "")
        key = _text_key([(s["act"], s["m"], s["at"], s["text"]) for s in h["steps"]])
        if key in seen or len(h["steps"]) < 2:
            continue
        seen.add(key)
        h["id"] = "h%d" % len(hists)
        h["src"] = src
        hists.append(h)
    return hists


def run(ctx):
    # 1. exhaustive model check of the rule
    mcs = [ctx.tlc("LspIncr", "MC_LspIncr", workers=4, coverage=True, timeout=1700)]
    if not ctx.quick:
        mcs.append(ctx.tlc("LspIncr", "MC_LspIncr4", workers=4, timeout=1700))
        mcs.append(ctx.tlc("LspIncr", "MC_LspIncr3deep", workers=4, timeout=1700, xmx="6g"))
    for mc in mcs:
        if mc.violated:
            ctx.report("model:" + mc.violated, "LspIncr.tla violates its own invariant %s (a disagreement between "
                       "the transcribed caching rule and a fresh compilation that no named mechanism explains, or a "
                       "structural fact about the rule)" % mc.violated, {"tlc": mc.counterexample()[:6000]})
    cov = mcs[0].coverage_actions()
    never = [a for a in ("Edit", "Reopen", "CompileOk", "CompileCancelled", "CompileFailed", "Crash", "Restart")
             if a in cov and cov[a][1] == 0]
    if never:
        raise ToolError("vacuous model check: actions never taken: %s" % never)

    # 2. a shortest history per mechanism (one breadth-first run; it stops once all have been seen)
    ce = {}
    r = ctx.tlc("MC_LspIncr", "MC_LspIncr_ce3" if ctx.quick else "MC_LspIncr_ce", workers=1, name="ce", timeout=1500)
    if r.violated not in (None, "StopWhenAllSeen"):
        raise ToolError("unexpected result of the counterexample search: %s" % r.violated)
    for rep in r.printed("REPLAY"):
        m = rep["target"]
        if m not in ce:
            ce[m] = _norm_hist(rep, "ce-" + m)
            ce[m]["dead"] = rep.get("dead", False)

    # 3. history pool
    hists = gen_histories(ctx)
    pool_size = len(hists)
    if ctx.quick:
        hists = slice_for_seed(hists, ctx.seed, 110)
    ces = list(ce.values())
    # the model's counterexamples that end in a failed / crashed compilation depend on slot re-use, which the model
    # leaves open: they are replayed, but only a confirmed disagreement is reported
    allh = ces + hists

    # 4. real server
    groups, ntexts, wfp = replay_histories(ctx, allh, "pool", shards=3)
    for g in groups:
        for r in g:
            for side in ("incr", "fresh"):
                if not _shape_ok(r[side]):
                    ctx.report("shape:%s:%s:%d" % (side, r["id"], r["k"]),
                               "the %s server could not produce document symbols / tokens (%s)" % (side, r[side]), r)
    groups = [[r for r in g] for g in groups if all(_shape_ok(r["incr"]) and _shape_ok(r["fresh"]) for r in g)]

    # 5. trace validation
    validated, mech_seen, rejected = validate(ctx, groups, "pool")
    for bad, expl in rejected:
        ctx.report("deviates:%s" % json.dumps([[s["act"], s["m"], s.get("chg", "")] for s in
                                               next(h for h in allh if h["id"] == bad["id"])["steps"][:bad["k"]]]),
                   "history %s step %d: the real server deviates from the model (real incremental must equal the "
                   "Impl reading, real fresh must equal the Spec reading)" % (bad["id"], bad["k"]),
                   {"record": bad, "model_expectation": expl,
                    "history": next(h for h in allh if h["id"] == bad["id"])})
    rejected_ids = {b["id"] for b, _ in rejected}

    # mechanisms: reported when TLC finds them reachable and the real server confirms a disagreement through them
    confirmed = {}
    for (hid, k), ms in mech_seen.items():
        for m in ms:
            confirmed.setdefault(m, []).append((hid, k))
    for m in MECHS:
        if m not in ce:
            continue                      # no longer reachable in the model: nothing is printed
        if m in confirmed:
            hid, k = sorted(confirmed[m], key=lambda x: (not x[0].startswith("ce-"), x[1]))[0]
            h = next(h for h in allh if h["id"] == hid)
            ctx.report("mech:" + m, WHAT[m] + " -- minimal model history: %s" % json.dumps(
                [[s["act"], s["m"], s.get("chg", "")] for s in ce[m]["steps"]]),
                {"mechanism": m, "model_counterexample": ce[m], "confirmed_on_real_server": {"history": h, "step": k},
                 "records": [r for g in groups for r in g if r["id"] == hid]})
        elif ce[m]["id"] in rejected_ids:
            pass                          # already reported as a deviation
    unlisted = sorted(set(confirmed) - set(MECHS))
    for m in unlisted:
        ctx.report("mech:" + m, "disagreement through a mechanism the specification does not list: " + m,
                   {"where": confirmed[m][:5]})

    # binding self-test (thorough): corrupt one field of an accepted record -> the trace spec must reject it
    selftest = None
    if not ctx.quick:
        good = next((g for g in groups if g and g[0]["id"] not in rejected_ids and len(g) >= 2
                     and g[1]["incr"].get("status") == "ok" and g[1]["incr"]["syms"].get("main")), None)
        if good:
            import copy
            bad = copy.deepcopy(good)
            bad[1]["incr"]["syms"]["main"][0][2] = "bool" if bad[1]["incr"]["syms"]["main"][0][2] == "u64" else "u64"
            _, _, rej = validate(ctx, [bad], "selftest")
            selftest = bool(rej)
            if not rej:
                raise ToolError("binding self-test failed: a corrupted record was accepted by Trace_LspIncr")

    nsteps = sum(len(g) for g in groups)
    differ = len(mech_seen)
    samples = []
    for g in groups[:2] + groups[-1:]:
        if g:
            samples.append({"id": g[0]["id"], "steps": [[r["act"], r["m"], r["chg"], r["incr"].get("status")] for r in g],
                            "last_incr_diags": g[-1]["incr"].get("diags"), "last_fresh_diags": g[-1]["fresh"].get("diags")})
    return ctx.finish("model_checking", {
        "traces_validated_against_impl": validated,
        "histories_replayed": len(groups), "history_pool": pool_size, "steps_replayed": nsteps,
        "distinct_texts_compiled_fresh": ntexts,
        "steps_where_incremental_differs_from_fresh": differ,
        "mechanisms_reachable_in_model": sorted(ce), "mechanisms_confirmed_on_real_server": sorted(confirmed),
        "records_rejected": len(rejected), "wait_for_parsing_timeouts": wfp,
        "binding_selftest_rejected_corrupted_record": selftest,
        "constants": {"exhaustive": ["MC_LspIncr.cfg"] if ctx.quick else
                      ["MC_LspIncr.cfg", "MC_LspIncr4.cfg", "MC_LspIncr3deep.cfg"]},
        "action_coverage": cov,
        "samples": samples,
    }, assumptions=[
        "workspaces are std-less (implicit-std = false) libraries of single-call functions over the fixed tree "
        "main -> {a, b}, a -> {c}; references allowed: main -> a,b,c and a -> b,c",
        "declaration-slot re-use after garbage collection is not modelled: where a reused module holds references "
        "into the collected module the model allows the outcomes committed / failed / crashed",
        "didOpen is made race-free by holding the worker until the handler is parked (the races are C24's subject)",
        "histories: exhaustive up to 3 client actions (thorough), fixed-seed TLC simulation beyond",
    ])


def replay(path):
    """Print a violation file: the history, both real observations and the model's expectation."""
    v = json.load(open(path))
    print("property C26  key:", v["key"])
    print(v["what"])
    rp = v["replay"]
    h = rp.get("history") or (rp.get("confirmed_on_real_server") or {}).get("history") or rp.get("model_counterexample")
    if h:
        print("history", h["id"])
        for i, s in enumerate(h["steps"]):
            print("  %d %-13s %-4s %-7s at=%s  %s" % (i + 1, s["act"], s["m"], s.get("chg", ""), s.get("at", 0),
                  {m: [(x["n"], x["p"], x["r"]["m"], x["r"]["n"], x["r"]["a"]) for x in t["items"]]
                   for m, t in s["text"].items()}))
    recs = [rp["record"]] if "record" in rp else rp.get("records", [])
    for r in recs:
        print("step %d %s %s:" % (r["k"], r["act"], r["m"]))
        for side in ("incr", "fresh"):
            o = r.get(side, {})
            print("   %-5s status=%s failed=%s diags=%s" % (side, o.get("status"), o.get("failed"),
                  [(d["m"], d["line"], d["k"]) for d in o.get("diags", [])]))
            print("         syms=%s refs=%s" % (o.get("syms"), o.get("refs")))
    for e in rp.get("model_expectation", []):
        print("   model:", e[:1500])
    return 0
