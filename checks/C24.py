"""C24 LSP compilation scheduling neither hangs nor drops edits -- LspSched.tla + vh-lspsched.

1. vh-lspsched --mode measure runs the real server freely once and reports the step points every
   handler / compilation passes: the abstract->concrete constants (W.check points of a full and of
   a cached compilation) and which variant of the protocol the tree implements (FixNotify: T.create
   before T.check; FixOpen: H.setCompiling present; FixClear: W.pickupClear present).  The model is
   instantiated with exactly that variant: it is the reading of the code, defects included.
2. TLC model-checks NoHang / NoLostEdit (and the structural invariants) on that variant, exhaustively
   for 1 didOpen + {0..3} didChange + {0,1} didSave + {1,2} waiting requests.  A counterexample is
   classified by its mechanism; a mechanism listed in known_findings.json is a KNOWN-FINDING, any
   other is a VIOLATION (and its schedule is replayed on the real server).
3. Anti-vacuity: the three as-written variants must still violate the properties in the model.
4. Spec -> impl: schedules covering every transition of the state graph of the small configurations
   (real constants), plus fixed-seed simulation runs of the larger ones, are enforced grant by grant on
   the real server; Trace_LspSched.tla accepts the observed events only if after every grant the
   flags, the channel length, the last state and every thread's position equal the model's.
"""
import json, os, hashlib, time
from lib.common import *

FLAGS = ("FixNotify", "FixOpen", "FixClear", "FixSave")
ALL_MECHS = ("lost-wakeup", "late-open-store", "stale-retrigger", "cached-save-supersedes-change")
STRUCT_INVS = ["TypeOK", "TokenOK", "SendNeverBlocks", "CheckReadsAtomic", "ClassificationSound"]


def tla_bool(b):
    return "TRUE" if b else "FALSE"


def tla_set(xs):
    return "{" + ", ".join('"%s"' % x for x in sorted(xs)) + "}"


def digits(xs):
    """a sequence of small numbers as one decimal number (a TLC cfg file cannot hold tuples)"""
    if not xs or any(not 0 <= x <= 9 for x in xs) or len(xs) > 9:
        raise ToolError("cannot encode %s" % (xs,))
    return str(int("".join(str(x) for x in xs)))


def cfg_text(c, spec, invariants=(), properties=(), view=None, postcondition=None):
    lines = ["CONSTANTS NChange = %d  NSave = %d  NWait = %d" % (c["changes"], c["saves"], c["waiters"]),
             "          NChecksFull = %d  TailFullCode = %s  NChecksCached = %d  TailCachedCode = %s" % (
                 len(c["full"]), digits(c["full"]), len(c["cached"]), digits(c["cached"])),
        "          FixNotify = %s  FixOpen = %s  FixClear = %s  FixSave = %s" % tuple(tla_bool(c["flags"][f]) for f in FLAGS),
        "          KnownMechs = %s" % tla_set(c.get("known", ())),
        "SPECIFICATION %s" % spec]
    if view:
        lines.append("VIEW %s" % view)
    for i in invariants:
        lines.append("INVARIANT %s" % i)
    for p in properties:
        lines.append("PROPERTY %s" % p)
    if postcondition:
        lines.append("POSTCONDITION %s" % postcondition)
    lines.append("CHECK_DEADLOCK FALSE")
    return "\n".join(lines) + "\n"


def write_cfg(ctx, name, text):
    p = os.path.join(ctx.work, name + ".cfg")
    with open(p, "w") as f:
        f.write(text)
    return p


def conf(changes, saves, waiters, full, cached, flags, known=()):
    return {"changes": changes, "saves": saves, "waiters": waiters, "full": full, "cached": cached,
            "flags": dict(flags), "known": tuple(known)}


def conf_name(c):
    return "c%ds%dw%d_k%d_%d_%s" % (c["changes"], c["saves"], c["waiters"], len(c["full"]), len(c["cached"]),
                                     "".join("1" if c["flags"][f] else "0" for f in FLAGS))


def harness_env(ctx, home):
    """Environment of vh-lspsched.  didChange / didSave maintain a pid-lock file (property C25, not this one)
    and call `ps -p <pid>` several times per notification; the real ps scans all of /proc (0.5 s per call
    on a busy machine).  A stand-in that answers from /proc/<pid> keeps the replays fast."""
    bind = os.path.join(ctx.work, "bin")
    os.makedirs(bind, exist_ok=True)
    ps = os.path.join(bind, "ps")
    if not os.path.exists(ps):
        with open(ps, "w") as f:
            f.write('#!/bin/sh\necho "    PID TTY          TIME CMD"\n'
                    'if [ "$1" = "-p" ] && [ -d "/proc/$2" ]; then echo "$2 ?        00:00:00 lsp"; exit 0; fi\nexit 1\n')
        os.chmod(ps, 0o755)
    os.makedirs(home, exist_ok=True)
    return {"HOME": home, "PATH": bind + os.pathsep + os.environ.get("PATH", "")}


# ------------------------------------------------------------------------------------ measuring
def measure(ctx):
    out = os.path.join(ctx.work, "measure.ndjson")
    ctx.vh("vh-lspsched", ["--mode", "measure", "--work", ctx.work, "--out", out],
           env=harness_env(ctx, os.path.join(ctx.tmp, "home-measure")), timeout=600)
    recs = read_ndjson(out)
    ph = {r["phase"]: r for r in recs if r["ev"] == "Measure"}
    ph["tails"] = [r for r in recs if r["ev"] == "Tails"][0]
    probe = [r for r in recs if r["ev"] == "SaveProbe"][0]
    if probe["yields"] not in (True, False):
        raise ToolError("measure: the didSave probe did not finish: %s" % probe)
    w_open, h_open = ph["open"]["worker"], ph["open"]["handler"]
    full = ph["open"]["checks"]
    if not (full >= 1 and ph["change"]["checks"] == full and ph["change2"]["checks"] == full):
        raise ToolError("measure: full compilations pass different numbers of W.check points: %s" % (
            [ph[k]["checks"] for k in ("open", "change", "change2")]))
    cached = ph["save"]["checks"]
    if not 1 <= cached <= full:
        raise ToolError("measure: cached compilation passes %d W.check points" % cached)
    flags = {
        "FixNotify": "T.create" in h_open and "T.check" in h_open and h_open.index("T.create") < h_open.index("T.check"),
        "FixOpen": "H.setCompiling" in h_open,
        "FixClear": "W.pickupClear" in w_open,
        "FixSave": probe["yields"],
    }
    tails = ph["tails"]
    if len(tails["full"]) != full or len(tails["cached"]) != cached:
        raise ToolError("measure: abort tails %s do not cover the %d / %d check points" % (tails, full, cached))
    return {"full": tails["full"], "cached": tails["cached"], "flags": flags, "phases": ph}


# ------------------------------------------------------------------------------------ schedules
def key_of(v):
    return hashlib.sha1(json.dumps(v, sort_keys=True, separators=(",", ":")).encode()).hexdigest()[:16]


def edge_graph(ctx, c, name):
    """All transitions of the state graph of configuration c, printed by TLC (EdgeSpec)."""
    cfg = write_cfg(ctx, "edges-" + name, cfg_text(c, "EdgeSpec"))
    r = ctx.tlc("MC_LspSched", cfg, workers=1, name="edges-" + name, count=False, timeout=1500)
    init = r.printed("INIT")
    if len(init) != 1:
        raise ToolError("edge dump: %d INIT records" % len(init))
    edges = []
    for e in r.printed("EDGE"):
        edges.append({"f": key_of(e["f"]), "t": key_of(e["t"]), "thr": e["thr"], "point": e["point"],
                      "pos": e["pos"], "term": e["term"]})
    return key_of(init[0]["s"]), edges, r


def covering_schedules(init, edges):
    """Schedules (init -> terminal state) that together take every transition at least once.
    Greedy walks from the initial state: take an untaken transition if the current state has one,
    otherwise head for the nearest state that has one; finish at a terminal state."""
    out = {}
    for i, e in enumerate(edges):
        out.setdefault(e["f"], []).append(i)
    rev = {}
    for i, e in enumerate(edges):
        rev.setdefault(e["t"], []).append(i)
    term_states = set(e["t"] for e in edges if e["term"])

    def toward(targets):
        """next[s] = edge to take from s on a shortest path to a state in targets"""
        nxt = {s: None for s in targets}
        q = list(targets)
        for s in q:
            for i in rev.get(s, []):
                f = edges[i]["f"]
                if f not in nxt:
                    nxt[f] = i
                    q.append(f)
        return nxt

    finish = toward(term_states)
    covered = [False] * len(edges)
    left = len(edges)
    scheds = []
    while left:
        open_states = set(edges[i]["f"] for i in range(len(edges)) if not covered[i])
        guide = toward(open_states)
        if init not in guide:
            raise ToolError("edge cover: %d transitions cannot be reached from the initial state" % left)
        path, s, gained = [], init, 0
        while len(path) < 600:
            fresh = [j for j in out.get(s, []) if not covered[j]]
            if fresh:
                j = fresh[0]
            else:
                # nothing untaken here: go on towards untaken transitions if reachable, else finish
                j = guide.get(s) if guide.get(s) is not None else finish.get(s)
                if j is None:
                    break
            if not covered[j]:
                covered[j] = True
                left -= 1
                gained += 1
                # keep the guide honest: a state whose last untaken transition was just taken is no target any more
                if not any(not covered[k] for k in out.get(s, [])):
                    open_states.discard(s)
                    guide = toward(open_states) if open_states else {}
            path.append(j)
            s = edges[j]["t"]
            if s in term_states and not out.get(s):
                break
        if gained == 0:
            raise ToolError("edge cover makes no progress (%d transitions left)" % left)
        scheds.append([{"thr": edges[j]["thr"], "point": edges[j]["point"], "pos": edges[j]["pos"]} for j in path])
    return scheds


def simulated_schedules(ctx, c, name, num, depth, seed):
    cfg = write_cfg(ctx, "sim-" + name, cfg_text(c, "HistSpec", invariants=["PrintTerminal"]))
    r = ctx.tlc("MC_LspSched", cfg, workers=1, simulate=num, depth=depth, tlc_seed=seed,
                name="sim-%s-%d" % (name, seed), count=False, timeout=900)
    seen, out = set(), []
    for rec in r.printed("REPLAY"):
        k = key_of(rec["steps"])
        if k not in seen:
            seen.add(k)
            out.append(rec["steps"])
    return out


# ------------------------------------------------------------------------------------ replaying
def replay_and_validate(ctx, scheds, c, label, shards=4):
    """Enforce the schedules on the real server (in `shards` parallel processes), then validate all
    observed events with Trace_LspSched in one TLC run (re-run after a rejected schedule).
    Returns (#schedules accepted, #events accepted, list of (schedule id, PROP verdict))."""
    if not scheds:
        return 0, 0, []
    import concurrent.futures
    parts = [p for p in (scheds[i::shards] for i in range(shards)) if p]

    def run_part(ip):
        i, part = ip
        inp = os.path.join(ctx.work, "sched-%s-%d.ndjson" % (label, i))
        outp = os.path.join(ctx.work, "obs-%s-%d.ndjson" % (label, i))
        write_ndjson(inp, part)
        # a HOME of its own: didChange runs `ps` for every pid-lock file it finds in ~/.forc/.lsp-locks
        home = os.path.join(ctx.tmp, "home-%s-%d" % (label, i))
        ctx.vh("vh-lspsched", ["--mode", "replay", "--work", os.path.join(ctx.work, "r-%s-%d" % (label, i)),
                               "--in", inp, "--out", outp, "--timeout-ms", "90000"], env=harness_env(ctx, home),
               timeout=600 + 3 * len(part))
        return read_ndjson(outp)

    ctx.build_vh("vh-lspsched")
    t0 = time.time()
    with concurrent.futures.ThreadPoolExecutor(max_workers=len(parts)) as ex:
        obs_parts = list(ex.map(run_part, enumerate(parts)))
    log("[C24] %s: %d schedules enforced on the real server in %.0fs" % (label, len(scheds), time.time() - t0))
    by_id = {s["id"]: s for s in scheds}
    tc = dict(c)
    tc.update(changes=3, saves=1, waiters=2)      # the trace spec knows every thread a schedule may use
    cfg = write_cfg(ctx, "trace-" + label, cfg_text(tc, "TraceSpec", postcondition="Accepted"))
    groups, cur = [], None
    for events in obs_parts:
        for e in events:
            if e["ev"] == "Reset":
                cur = [e]
                groups.append(cur)
            else:
                cur.append(e)
    ok_scheds, ok_events, props = 0, 0, []
    pos = 0
    while pos < len(groups):
        chunk = groups[pos:]
        flat = [e for g in chunk for e in g]
        tp = os.path.join(ctx.work, "trace-%s.ndjson" % label)
        write_ndjson(tp, flat)
        tr = ctx.tlc_trace("Trace_LspSched", cfg, tp, name="trace-%s-%d" % (label, pos), count=False)
        starts, n = [], 0
        for g in chunk:
            starts.append(n + 1)
            n += len(g)

        def sched_at(line):
            k = 0
            while k + 1 < len(starts) and starts[k + 1] <= line:
                k += 1
            return chunk[k][0]["id"]

        if tr.violated is None:
            props += [(sched_at(p["l"]), p) for p in tr.printed("PROP")]
            ok_scheds += len(chunk)
            ok_events += len(flat)
            break
        k = tr.first_unmatched()
        if tr.violated != "postcondition" or k is None:
            raise ToolError("trace validation failed unexpectedly (%s); see %s" % (tr.violated, tp))
        bad_id = sched_at(k)
        gi = [g[0]["id"] for g in chunk].index(bad_id)
        props += [(sched_at(p["l"]), p) for p in tr.printed("PROP") if p["l"] < starts[gi]]
        ok_scheds += gi
        ok_events += starts[gi] - 1
        bad_event = flat[k - 1]
        mm = [l for l in tr.out.splitlines() if '"MISMATCH"' in l]
        ctx.report("conformance:%s:%s@%s" % (conf_name(c), bad_event.get("thr", bad_event["ev"]), bad_event.get("point", "")),
                   "the real server left the model at event %d of schedule %s: %s" % (
                       k - starts[gi] + 1, bad_id, json.dumps(bad_event)[:400]),
                   {"schedule": by_id.get(bad_id), "observed": chunk[gi], "model_says": mm[-1:] if mm else None,
                    "config": c})
        pos += gi + 1
    return ok_scheds, ok_events, props


def number(scheds, prefix):
    return [{"id": "%s-%d" % (prefix, i), "steps": s} for i, s in enumerate(scheds)]


def cname(t):
    return "c%ds%dw%d" % t


# ------------------------------------------------------------------------------------ the check
def run(ctx):
    import concurrent.futures, threading
    m = measure(ctx)
    flags, full, cached = m["flags"], m["full"], m["cached"]
    log("[C24] measured: W.check points / abort tails of a full compilation %s, of a cached one %s; protocol variant %s" % (full, cached, flags))
    known = [k["match"] for k in ctx.known_findings
             if k.get("kind") == "known" and k.get("property") == "C24" and k.get("match") in ALL_MECHS]
    abs_full, abs_cached = [1, 1, 0], [1, 0]
    invs = STRUCT_INVS + ["NoHangButKnown", "NoLostEditButKnown", "NoDefectEvent"]
    lock = threading.Lock()
    reported_mech = set()
    cex_scheds = []
    results = {}

    def model_check(c, name, coverage=False, liveness=False, workers=2):
        """Exhaustive check of one configuration; every counterexample is classified and reported."""
        with lock:
            # mechanisms already reported in another configuration are not searched for again
            c = dict(c, known=tuple(sorted(set(c["known"]) | reported_mech)))
        cfg = write_cfg(ctx, "mc-" + name, cfg_text(c, "FairSpec" if liveness else "Spec", invariants=invs,
                                                    properties=["EveryWaiterReturns"] if liveness else ()))
        r = ctx.tlc("LspSched", cfg, workers=workers, coverage=coverage, name="mc-" + name, timeout=1700)
        results[name] = r
        if r.violated == "temporal":
            ctx.report("liveness:" + name, "EveryWaiterReturns violated under weak fairness", {"tlc": r.counterexample()[:6000], "config": c})
        elif r.violated:
            # classify: rerun with the schedule-carrying spec; accept each mechanism found and look for the next
            found_any = False
            for inv in ("CexNoHang", "CexNoLostEdit"):
                accepted = set(c["known"])
                for _round in range(len(ALL_MECHS) + 1):
                    # search with the measured constants so that the schedule can be enforced on the real server
                    recs = []
                    for cc in (dict(c, full=full, cached=cached, known=tuple(sorted(accepted))), dict(c, known=tuple(sorted(accepted)))):
                        ccfg = write_cfg(ctx, "cex-%s-%s" % (name, inv), cfg_text(cc, "HistSpec", invariants=[inv], view="View"))
                        rc = ctx.tlc("MC_LspSched", ccfg, workers=1, name="cex-%s-%s-%d" % (name, inv, _round), count=False, timeout=1700)
                        recs = rc.printed("CEX")
                        if recs or (cc["full"], cc["cached"]) == (c["full"], c["cached"]):
                            break
                    if not recs:
                        break
                    rec = recs[0]
                    key = rec["mech"]
                    found_any = True
                    if key in accepted:
                        raise ToolError("counterexample search loops on mechanism %s" % key)
                    accepted.add(key)
                    with lock:
                        fresh = key not in reported_mech
                        reported_mech.add(key)
                    if fresh:
                        sid = "cex-%s-%s" % (name, key)
                        if (cc["full"], cc["cached"]) == (full, cached):
                            cex_scheds.append(({"id": sid, "steps": rec["steps"]}, cc))
                        ctx.report(key, "%s violated in the model of the protocol as the code has it (%s), mechanism %s, "
                                   "configuration %s" % (rec["inv"], flags, key, name),
                                   {"schedule": {"id": sid, "steps": rec["steps"]}, "config": cc,
                                    "doc": rec["doc"], "done": rec["done"]})
            if not found_any:
                ctx.report("model:%s:%s" % (name, r.violated), "LspSched violates %s" % r.violated,
                           {"tlc": r.counterexample()[:6000], "config": c})
        return r

    def vacuity(want, fl, inv, t):
        c = conf(t[0], t[1], t[2], abs_full, abs_cached, fl, ())
        ccfg = write_cfg(ctx, "vac-" + want, cfg_text(c, "HistSpec", invariants=[inv], view="View"))
        rc = ctx.tlc("MC_LspSched", ccfg, workers=1, name="vac-" + want, count=False, timeout=900)
        return want, fl, [x["mech"] for x in rc.printed("CEX")]

    def edge_pool(t):
        c = conf(t[0], t[1], t[2], full, cached, flags, known)
        init, edges, _ = edge_graph(ctx, c, cname(t))
        return (cname(t), c, number(covering_schedules(init, edges), "e-" + cname(t)), len(edges))

    def sim_pool(t, seed, num):
        c = conf(t[0], t[1], t[2], full, cached, flags, known)
        return ("sim-" + cname(t), c, number(simulated_schedules(ctx, c, cname(t), num, 400, seed), "s-" + cname(t)), 0)

    # ---- 2./3. TLC jobs (independent of each other; a few run side by side, <= 6 TLC workers in total)
    if ctx.quick:
        mc_list = [(1, 0, 1), (0, 1, 1), (0, 0, 1)]
        real_list = [(0, 0, 1)]
        live_list = [(0, 0, 1)]
        edge_list = [(0, 0, 1)]
        sim_list = [((2, 1, 1), 11, 40)]
    else:
        # largest first, so that the long runs overlap
        mc_list = [(2, 1, 1), (3, 0, 1), (1, 1, 1), (2, 0, 1), (1, 0, 2), (0, 1, 2), (0, 1, 1), (1, 0, 1), (0, 0, 1)]
        real_list = [(1, 1, 1), (1, 0, 1), (0, 1, 1), (0, 0, 1)]
        live_list = [(1, 0, 1), (0, 1, 1), (0, 0, 1)]
        edge_list = [(0, 0, 1), (1, 0, 1), (0, 1, 1)]
        sim_list = [((1, 1, 1), 11, 150), ((2, 1, 1), 12, 200), ((3, 1, 2), 13, 200), ((2, 0, 2), 14, 100)]
    vac_list = [
        ("lost-wakeup", dict(FixNotify=False, FixOpen=False, FixClear=False, FixSave=False), "CexNoHang", (0, 0, 1)),
        ("late-open-store", dict(FixNotify=True, FixOpen=False, FixClear=False, FixSave=False), "CexNoHang", (0, 0, 1)),
        ("stale-retrigger", dict(FixNotify=True, FixOpen=True, FixClear=False, FixSave=False), "CexNoLostEdit", (1, 0, 1))]
    if not ctx.quick:
        vac_list.append(("cached-save-supersedes-change", dict(FixNotify=True, FixOpen=True, FixClear=True, FixSave=False),
                         "CexNoLostEdit", (1, 1, 1)))
    # action coverage is taken over one configuration with a didChange and one with a didSave
    cov_cfgs = [(1, 0, 1), (0, 1, 1)]
    jobs = []
    with concurrent.futures.ThreadPoolExecutor(max_workers=3) as ex:
        for t in mc_list:
            jobs.append(("mc", t, ex.submit(model_check, conf(t[0], t[1], t[2], abs_full, abs_cached, flags, known), cname(t),
                                            t in cov_cfgs)))
        for t in real_list:
            jobs.append(("real", t, ex.submit(model_check, conf(t[0], t[1], t[2], full, cached, flags, known), "real-" + cname(t))))
        for t in live_list:
            jobs.append(("live", t, ex.submit(model_check, conf(t[0], t[1], t[2], abs_full, abs_cached, flags, known),
                                              "live-" + cname(t), False, True)))
        for v in vac_list:
            jobs.append(("vac", v[0], ex.submit(vacuity, *v)))
        for t in edge_list:
            jobs.append(("edge", t, ex.submit(edge_pool, t)))
        for (t, sd, num) in sim_list:
            jobs.append(("sim", t, ex.submit(sim_pool, t, sd, num)))
        done = [(k, t, f.result()) for (k, t, f) in jobs]      # re-raises ToolError
    cov = None
    rcov = [results.get(cname(t)) for t in cov_cfgs]
    if all(r is not None and r.violated is None for r in rcov):
        cov = {}
        for r in rcov:
            for a, (d, n) in r.coverage_actions().items():
                cov[a] = (cov.get(a, (0, 0))[0] + d, cov.get(a, (0, 0))[1] + n)
        dead = [a for a, (d, n) in cov.items() if n == 0]
        expect_dead = {"HOpenSet" if flags["FixOpen"] else "HSetCompiling"}
        if not flags["FixClear"]:
            expect_dead.add("WPickupClear")
        really_dead = [a for a in dead if a not in expect_dead]
        if really_dead or not cov:
            raise ToolError("vacuity: actions never taken in %s: %s" % ([cname(t) for t in cov_cfgs], really_dead))
    vac = {}
    for k, t, res in done:
        if k == "vac":
            want, fl, got = res
            vac[want] = got
            if got != [want]:
                raise ToolError("vacuity: the as-written variant %s no longer exhibits %s (got %s)" % (fl, want, got))

    # ---- known mechanisms are announced only while the model still exhibits them
    for k in known:
        if k in reported_mech:
            continue
        c = conf(1, 1, 1, full, cached, flags, tuple(x for x in ALL_MECHS if x != k))
        for inv in ("CexNoHang", "CexNoLostEdit"):
            ccfg = write_cfg(ctx, "known-%s-%s" % (k, inv), cfg_text(c, "HistSpec", invariants=[inv], view="View"))
            rc = ctx.tlc("MC_LspSched", ccfg, workers=2, name="known-%s-%s" % (k, inv), count=False, timeout=1700)
            for rec in rc.printed("CEX"):
                if rec["mech"] == k and k not in reported_mech:
                    reported_mech.add(k)
                    sid = "known-%s" % k
                    cex_scheds.append(({"id": sid, "steps": rec["steps"]}, c))
                    ctx.report(k, "%s: mechanism %s" % (rec["inv"], k), {"schedule": {"id": sid, "steps": rec["steps"]}, "config": c})

    # ---- 4. spec -> impl: one batch of schedules on the real server, one trace validation
    pools = [res for k, t, res in done if k in ("edge", "sim")]
    per_pool, batch, samples = {}, [], []
    for label, c, scheds, nedges in pools:
        pick = slice_for_seed(scheds, ctx.seed, 30) if ctx.quick else scheds
        per_pool[label] = {"schedules_in_pool": len(scheds), "replayed": len(pick), "transitions_of_the_state_graph": nedges,
                           "steps": sum(len(s["steps"]) for s in pick)}
        batch += pick
        if pick:
            samples.append({"pool": label, "id": pick[0]["id"], "steps": [[s["thr"], s["point"]] for s in pick[0]["steps"]][:60]})
    c_any = conf(0, 0, 1, full, cached, flags, known)
    total_s, total_e, all_props = replay_and_validate(ctx, batch, c_any, "pool")
    # counterexample schedules of step 2 are replayed on the real server as well
    for sch, c in cex_scheds:
        a, b, props = replay_and_validate(ctx, [sch], c, sch["id"], shards=1)
        total_s += a
        total_e += b
        all_props += props
    # properties judged by the trace spec on the states the real server was in
    seen_props = set()
    for sid, p in all_props:
        for mech in p["mechs"]:
            if (sid, mech) in seen_props:
                continue
            seen_props.add((sid, mech))
            ctx.report(mech, "real server driven into a state violating %s (schedule %s, mechanism %s)" % (
                "NoHang" if p["hang"] else "NoLostEdit", sid, mech), {"schedule": sid, "verdict": p})

    # ---- binding self-test: a corrupted observation must be rejected by the trace spec
    selftest = None
    tp = os.path.join(ctx.work, "trace-pool.ndjson")
    if os.path.exists(tp):
        first = []
        for e in read_ndjson(tp):
            if e["ev"] == "Reset" and first:
                break
            first.append(e)
        idx = [i for i, e in enumerate(first) if e["ev"] == "Step" and e["point"] == "W.setCompiling"]
        if idx:
            bad = json.loads(json.dumps(first))
            bad[idx[0]]["obs"]["rt"] = not bad[idx[0]]["obs"]["rt"]
            bp = os.path.join(ctx.work, "selftest-corrupt.ndjson")
            write_ndjson(bp, bad)
            tc = dict(c_any)
            tc.update(changes=3, saves=1, waiters=2)
            cfg = write_cfg(ctx, "trace-selftest", cfg_text(tc, "TraceSpec", postcondition="Accepted"))
            tr = ctx.tlc_trace("Trace_LspSched", cfg, bp, name="trace-selftest", count=False)
            if tr.violated != "postcondition" or tr.first_unmatched() != idx[0] + 1:
                raise ToolError("binding self-test: corrupted observation was not rejected at event %d (got %s / %s)" % (
                    idx[0] + 1, tr.violated, tr.first_unmatched()))
            selftest = {"corrupted_event": idx[0] + 1, "field": "obs.rt", "rejected_at": tr.first_unmatched()}

    return ctx.finish("model_checking", {
        "traces_validated_against_impl": total_s,
        "trace_events_validated": total_e,
        "exhaustive": True,
        "constants": {"TailFull_measured": full, "TailCached_measured": cached, "abstract_tails": [abs_full, abs_cached],
                      "protocol_variant": flags, "known_mechanisms": known},
        "configurations_model_checked": [cname(t) for t in mc_list] + ["real-" + cname(t) for t in real_list]
                                        + ["live-" + cname(t) for t in live_list],
        "replay_pools": per_pool,
        "anti_vacuity_as_written_variants": vac,
        "binding_selftest": selftest,
        "action_coverage": cov,
        "samples": samples[:4],
    }, assumptions=[
        "handlers are polled from one task (tower-lsp 0.20): handler code between two awaits is atomic w.r.t. other handlers; "
        "the harness runs each handler on its own OS thread and enforces this through the schedule",
        "the prefix of a handler up to its first step point (workspace sync, document write) is one atomic step and handlers "
        "start in client order (didOpen first, didChange in version order)",
        "a thread held at the step point before rx.recv() / before polling Notified stands for a thread blocked in the call",
        "compilations of the tiny std-less workspace succeed; a full compilation passes %d W.check points, a cached one %d" % (len(full), len(cached)),
        "bounds: 1 didOpen, <=3 didChange, <=1 didSave (<=2 in the model), <=2 waiting requests",
    ])


def replay(path):
    """Re-execute the schedule of a violation file on the real server and validate it against the model."""
    v = json.load(open(path))
    rp = v.get("replay") or {}
    sch, c = rp.get("schedule"), rp.get("config")
    print("property=C24 key=%s\n%s" % (v.get("key"), v.get("what")))
    if not isinstance(sch, dict) or not c or not sch.get("steps"):
        print(json.dumps(rp, indent=1)[:20000])
        return 0
    ctx = Ctx("C24-replay", "quick", 0)
    print("schedule %s (%d grants): %s" % (sch["id"], len(sch["steps"]), " ".join("%s:%s" % (s["thr"], s["point"]) for s in sch["steps"])))
    a, b, props = replay_and_validate(ctx, [sch], c, "replay", shards=1)
    obs = read_ndjson(os.path.join(ctx.work, "obs-replay-0.ndjson"))
    print("real server, last event: %s" % json.dumps(obs[-1])[:600])
    print("trace validation: %d/%d events accepted by Trace_LspSched (%s)" % (b, len(obs), "conforms to the model" if a == 1 else "LEFT THE MODEL"))
    for sid, p in props:
        print("model verdict on the state the real server was driven into: %s" % json.dumps(p))
    for f in ctx.violations:
        print(open(f).read()[:3000])
    return 0


def write_static_cfgs():
    """spec/MC_LspSched*.cfg, spec/Trace_LspSched.cfg: the configurations run() generates, with the constants
    measured on the current tree, for running TLC by hand (run() regenerates them from a fresh measurement)."""
    fixed = dict(FixNotify=True, FixOpen=True, FixClear=True, FixSave=True)
    full, cached, ab_f, ab_c = [1, 1, 2, 2, 1, 1, 0], [1, 0], [1, 1, 0], [1, 0]
    invs = STRUCT_INVS + ["NoHangButKnown", "NoLostEditButKnown", "NoDefectEvent"]
    out = {}
    for t in [(0, 0, 1), (1, 0, 1), (2, 0, 1), (3, 0, 1), (0, 1, 1), (1, 1, 1), (2, 1, 1), (2, 0, 2)]:
        out["MC_LspSched_%s" % cname(t)] = ("\\* LspSched.tla, repaired protocol (= the tree), 1 didOpen + %d didChange + %d didSave + %d waiting request(s), "
                                            "abstract check points\n" % t) + cfg_text(conf(t[0], t[1], t[2], ab_f, ab_c, fixed), "Spec", invariants=invs + (["TerminalIffStuck"] if t == (1, 0, 1) else []))
    out["MC_LspSched_real_c1s1w1"] = "\\* LspSched.tla, repaired protocol, check points / abort tails as measured on the real code\n" + \
        cfg_text(conf(1, 1, 1, full, cached, fixed), "Spec", invariants=invs)
    out["MC_LspSched_live_c1s1w1"] = "\\* LspSched.tla, repaired protocol, liveness under weak fairness of every thread\n" + \
        cfg_text(conf(1, 1, 1, ab_f, ab_c, fixed), "FairSpec", invariants=invs, properties=["EveryWaiterReturns"])
    for want, fl, inv, t in (
            ("lost-wakeup", dict(FixNotify=False, FixOpen=False, FixClear=False, FixSave=False), "CexNoHang", (0, 0, 1)),
            ("late-open-store", dict(FixNotify=True, FixOpen=False, FixClear=False, FixSave=False), "CexNoHang", (0, 0, 1)),
            ("stale-retrigger", dict(FixNotify=True, FixOpen=True, FixClear=False, FixSave=False), "CexNoLostEdit", (1, 0, 1)),
            ("cached-save-supersedes-change", dict(FixNotify=True, FixOpen=True, FixClear=True, FixSave=False), "CexNoLostEdit", (1, 1, 1))):
        out["MC_LspSched_aswritten_%s" % want] = ("\\* MC_LspSched.tla: the protocol as originally written w.r.t. this repair; TLC must report %s violated "
                                                  "and print the schedule (mechanism %s)\n" % (inv, want)) + \
            cfg_text(conf(t[0], t[1], t[2], full, cached, fl), "HistSpec", invariants=[inv], view="View")
    out["MC_LspSched_edges_c0s0w1"] = "\\* MC_LspSched.tla: prints every transition of the state graph (EDGE records)\n" + \
        cfg_text(conf(0, 0, 1, full, cached, fixed), "EdgeSpec")
    out["MC_LspSched_sim_c2s1w1"] = "\\* MC_LspSched.tla: run with -simulate num=N -depth 400 -seed S; prints the schedule of every finished behaviour\n" + \
        cfg_text(conf(2, 1, 1, full, cached, fixed), "HistSpec", invariants=["PrintTerminal"])
    out["Trace_LspSched"] = "\\* Trace_LspSched.tla: TRACE=<observed events .ndjson>; all threads a schedule may use\n" + \
        cfg_text(conf(3, 1, 2, full, cached, fixed), "TraceSpec", postcondition="Accepted")
    for name, text in out.items():
        with open(os.path.join(SPEC, name + ".cfg"), "w") as f:
            f.write(text)
    return sorted(out)


if __name__ == "__main__":
    print("\n".join(write_static_cfgs()))
