"""C02 Optimization level never changes observable behaviour.

(1) Fragment programs: the deterministic pool of generated Sway-mini programs is built in debug and release;
    both observations must equal SwaySem.Run of the source (Trace_SwaySem.tla) -- hence each other.
(2) Programs outside the fragment (the repository's e2e corpus: scripts run through `main`, and packages with
    #[test] entries) are built in both profiles; Pipeline.tla's ObsIsFunctionOfSource decides: the first
    Execute(program, entry) event binds the observable (logged values, return data, revert/non-revert), the
    other profile's event must agree (Trace_Pipeline.tla).
"""
import json, re
from lib.common import *
from lib import semcheck, pipecheck, corpus
from lib.swayexec import run_packages, observe, observe_main

POOL = list(range(1001, 1121))
PROFILES = ["debug", "release"]


# Programs that can observe memory addresses, raw registers or gas (hand-written asm, __addr_of, raw pointers,
# gas getters) may legitimately log values that differ between build profiles; they are not comparable and
# are left out of the corpus part.
EXPOSES_LAYOUT = re.compile(r"__addr_of|\basm\s*\(|as_ptr\(\)|\.ptr\(\)|raw_ptr|__gtf|\bgas\(|context_gas|global_gas")


def corpus_pool():
    ps = [p for p in corpus.programs("run") if not p["flags"]] + \
         [p for p in corpus.programs("unit_tests_pass") if not p["flags"]]
    return [p for p in ps if not any(EXPOSES_LAYOUT.search(src) for src in p["files"].values())]


def run(ctx):
    # ---- (1) fragment programs vs the semantics
    seeds = slice_for_seed(POOL, ctx.seed, 8) if ctx.quick else POOL
    pkgs = [semcheck.gen_package(s) for s in seeds]
    cfgs = [{"name": p, "profile": p} for p in PROFILES]
    obs, failures, _ = semcheck.run_configs(ctx, pkgs, cfgs, procs=10)
    semcheck.report_failures(ctx, failures)
    validated, rej = semcheck.validate(ctx, pkgs, obs)
    semcheck.report_rejections(ctx, rej, pkgs)

    # ---- (2) corpus programs: debug vs release
    cps = corpus_pool()
    cps = slice_for_seed(cps, ctx.seed, 24) if ctx.quick else cps
    jobs, meta = [], {}
    for i, p in enumerate(cps):
        for prof in PROFILES:
            jid = "c%03d_%s" % (i, prof)
            jobs.append({"id": jid, "files": p["files"], "manifest": p["manifest"], "profile": prof,
                         "run_main": True, "run": p["has_tests"]})
            meta[jid] = (p, prof)
    res = run_packages(ctx, jobs, procs=10)
    events, skipped, compared = [], [], 0
    for i, p in enumerate(cps):
        rs = {prof: res["c%03d_%s" % (i, prof)] for prof in PROFILES}
        okb = {prof: bool(rs[prof]["built"] and rs[prof]["built"]["ok"] and not rs[prof]["crashed"]) for prof in PROFILES}
        if not all(okb.values()):
            skipped.append({"program": p["rel"], "built": okb})
            continue
        for prof in PROFILES:
            r = rs[prof]
            events.append({"ev": "Start", "pkg": p["rel"], "cfg": prof, "passes": [],
                           "rt_parse": "ok", "rt_norm": True, "rt_idem": "ok", "rt_verify": "ok"})
            events.append({"ev": "Backend"})
            if r["main"] is not None:
                o = observe_main(r["main"], raw_log_values=False)
                events.append({"ev": "Exec", "pkg": p["rel"], "test": "main", "logs": o["logs"], "out": o["out"], "code": o["ret"]})
                compared += 1
            for t in sorted(r["tests"], key=lambda t: t["test"]):
                o = observe(t, raw_log_values=False)
                events.append({"ev": "Exec", "pkg": p["rel"], "test": t["test"], "logs": o["logs"], "out": o["out"], "code": []})
                compared += 1
    pv, prej = pipecheck.validate_pipeline(ctx, events, check_rt=False, name="corpus")
    for rj in prej:
        r = rj["record"]
        ctx.report("corpus:%s:%s" % (r.get("pkg"), r.get("test")),
                   "debug and release builds of %s disagree on entry %s" % (r.get("pkg"), r.get("test")), rj)
    return ctx.finish("model_checking", {
        "traces_validated_against_impl": validated + compared,
        "fragment_tests_validated_against_semantics": validated,
        "fragment_programs": len(pkgs), "corpus_programs": len(cps), "corpus_entries_compared": compared // 2,
        "corpus_programs_skipped_not_building_in_both_profiles": len(skipped),
        "pipeline_events_validated": pv,
        "samples": [{"corpus_program": p["rel"]} for p in cps[:3]] + [{"skipped": s} for s in skipped[:3]],
    }, assumptions=[
        "compared: logged values (LogData), return data, revert/non-revert status; not compared: revert codes of corpus programs, raw register `log` receipts of corpus programs (hand-written asm logs addresses), gas, sizes",
        "corpus programs needing script data, a node or experimental flags are skipped, as are programs that do not build in both profiles with the full std (the e2e harness uses reduced std libraries)",
    ])


def replay(path):
    print(json.dumps(json.load(open(path)), indent=1)[:6000])
    return 0
