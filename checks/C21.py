"""C21 Reading any lock file never crashes — LockFile.tla's string grammar as a generator + vh-lock.

1. TLC enumerates (MC_LockFile.tla, SourceStrings / DepLines) the product of field variants of a
   source string (prefix, head, separators, reference/version, commit/cid/namespace: well-formed,
   empty, separator missing / doubled / wrong, wrong prefix, non-ASCII, very long) and of a
   dependency line ((dep) key (salt) with every bracket and field varied).
2. vh-lock feeds each source string to source::Pinned::from_str, each dependency line (as a library
   and as a contract dependency of a two-package lock) and a slice of the source strings (as the
   `source` of a lock entry) to Lock::from_path + Lock::to_graph on a real Forc.lock file, and every
   single-token deletion / duplication of well-formed lock files (written by the real code for
   TLC-generated graphs) plus a few hand-written non-lock TOML texts, all under catch_unwind.
3. Trace_LockFile.tla decides every event: there is no action for outcome "panic"; a source string
   the grammar's ParseSource rejects must be an error, an accepted one must carry the fields
   ParseSource assigns; a lock given in abstract form must load to a graph exactly when FromLock does.
"""
import concurrent.futures, json, os
from lib.common import *
from checks.C20 import UTF8, PAR, validate, gen
import checks.C20 as C20

PREFIXES = ("path+", "git+", "ipfs+", "registry+")

RAW_TEXTS = [
    "", "\n", "package = 3", "package = []", "[[package]]", "[[package]]\nname = 'a'\n", "[package]\nname='a'\nsource='member'",
    "[[package]]\nname = 1\nsource = 'member'", "[[package]]\nname='a'\nsource=2", "[[package]]\nname='a'\nsource='member'\ndependencies='a'",
    "[[package]]\nname='a'\nsource='member'\ndependencies=[1]", "[[package]]\nname='a'\nsource='member'\nversion='x'",
    "[[package]]\nname='a'\nsource='member'\nversion='1.0.0'\nextra=1",
    "[[package]]\nname='a'\nsource='member'\n[[package]]\nname='a'\nsource='member'\ndependencies=['a']",
    "[[package]]\nname='a'\nsource='member'\ndependencies=['a']", "[[package]]\nname='a'\nsource='member'\ncontract-dependencies=['a (']",
    "[[package]]\nname='a'\nsource='member'\ndependencies=['a','a','(x) a']", "[[package]]\nname=''\nsource=''",
    "[[package]]\nname='é'\nsource='ééééé'", "﻿[[package]]\nname='a'\nsource='member'", "[[package]]\nname='a'\nsource='root'",
    "package = [{name='a', source='member', dependencies=['(']}]", "[[package]]\nname='a'\nsource='member'\n" * 200,
    "\x00", "[[package]]\nname='a'\nsource='mem\\u0000ber'", "= = =", "[[package]]\nname='a'\nsource='git+https://x.y/z'",
]


def nontrivial(r):
    """Mechanical classification for the evidence counts (not a verdict): did the input get past the
    first gate (a recognised source prefix / a TOML text that deserialized as a Lock)?"""
    if r["ev"] == "ParseSource":
        s = r["s"].strip()
        return r["outcome"] == "ok" or s.startswith(PREFIXES)
    return r["outcome"] == "graph" or r.get("stage") == "to_graph"


def run(ctx):
    C20.SHARD = 4000
    # ------------------------------------------------------------ 1. inputs from the grammar
    gs = ctx.tlc("MC_LockFile", "Gen_LockFileSources", workers=1, env=UTF8, xss="512m", name="GenSources")
    sources = sorted({x["s"] for x in gs.printed("ITEM")})
    gd = ctx.tlc("MC_LockFile", "Gen_LockFileDepLines", workers=1, env=UTF8, xss="512m", name="GenDepLines")
    deplines = sorted({x["s"] for x in gd.printed("ITEM")})
    if len(sources) < 1000 or len(deplines) < 1000:
        raise ToolError("grammar enumeration too small: %d source strings, %d dependency lines" % (len(sources), len(deplines)))
    pool_sizes = {"source_strings": len(sources), "dependency_lines": len(deplines)}
    graphs = gen(ctx, "Gen_LockFileBigQ", "big", tlc_seed=7)
    if ctx.quick:
        sources = slice_for_seed(sources, ctx.seed, 8000)
        deplines = slice_for_seed(deplines, ctx.seed, 2500)
        graphs = slice_for_seed(graphs, ctx.seed, 6)
        entry_sources = slice_for_seed(sources, ctx.seed, 1500)
    else:
        graphs = slice_for_seed(graphs, 0, 50)
        entry_sources = sources[::8]
    other = {"name": "b-b", "version": "", "source": "path+from-root-0123456789ABCDEF", "deps": [], "cdeps": []}
    src_recs = [{"id": "s%d" % i, "s": s} for i, s in enumerate(sources)]
    load_recs = []
    for i, d in enumerate(deplines):
        for kind in ("deps", "cdeps"):
            a = {"name": "aa", "version": "", "source": "member", "deps": [], "cdeps": []}
            a[kind] = [d]
            load_recs.append({"id": "d%d:%s" % (i, kind), "lock": [a, other]})
    for i, s in enumerate(entry_sources):
        load_recs.append({"id": "e%d" % i, "lock": [
            {"name": "aa", "version": "", "source": "member", "deps": ["b-b"], "cdeps": []},
            {"name": "b-b", "version": "", "source": s, "deps": [], "cdeps": []}]})
    for i, t in enumerate(RAW_TEXTS):
        load_recs.append({"id": "raw%d" % i, "text": t})

    # ------------------------------------------------------------ 2. the real code
    def vh(mode, recs, name, extra=()):
        inp = os.path.join(ctx.work, name + "-in.ndjson")
        outp = os.path.join(ctx.work, name + "-out.ndjson")
        write_ndjson(inp, recs)
        ctx.vh("vh-lock", ["--mode", mode, "--in", inp, "--out", outp, "--dir", ctx.work] + list(extra))
        return read_ndjson(outp)

    ev_src = vh("source", src_recs, "sources")
    ev_load = vh("load", load_recs, "loads")
    rts = vh("roundtrip", graphs, "wellformed")
    texts = [{"id": r["id"], "text": r["toml"]} for r in rts if r.get("ev") == "RoundTrip" and r.get("toml")]
    if not texts:
        raise ToolError("no well-formed lock text to mutate")
    ev_mut = vh("mutate", texts, "mutants")
    if len(ev_src) != len(src_recs) or len(ev_load) != len(load_recs) or not ev_mut:
        raise ToolError("vh-lock lost records")
    events = ev_src + ev_load + ev_mut

    # ------------------------------------------------------------ 3. every event decided by the spec
    accepted, _prov, rej = validate(ctx, events, "c21")
    for r in rej:
        if r["ev"] == "ShardAbandoned":
            ctx.report("abandoned:" + r["id"], "more than %d rejected events in one shard; %d events not validated"
                       % (C20.MAX_REJECT, r["not_validated"]), r)
        elif r["outcome"] == "panic":
            what = r.get("s") if r["ev"] == "ParseSource" else r["id"]
            ctx.report("panic:%s:%s" % (r["ev"], (what or "")[:120]),
                       "%s panicked: %s" % ("source::Pinned::from_str(%r)" % r.get("s") if r["ev"] == "ParseSource"
                                            else "loading lock file %s" % r["id"], r.get("msg")), r)
        elif r["ev"] == "ParseSource":
            ctx.report("source:%s" % r["s"][:120], "source::Pinned::from_str(%r) = %s, not what LockFile.tla's ParseSource "
                       "allows (a malformed string accepted, or other fields)" % (r["s"], r["outcome"]), r)
        else:
            ctx.report("load:%s" % r["id"], "lock file %s loaded as %s where FromLock decides otherwise" % (r["id"], r["outcome"]), r)

    # ------------------------------------------------------------ 4. binding self-test
    selftests = []
    rejids = {r.get("id") for r in rej}
    ok_src = [r for r in ev_src if r["outcome"] == "error" and r["id"] not in rejids][:1]
    ok_load = [r for r in ev_load if r["outcome"] == "error" and "lock" in r and r["id"].startswith("d") and r["id"] not in rejids][:1]
    if ok_src and ok_load:
        c1 = dict(ok_src[0], outcome="panic", msg="injected")
        c2 = dict(ok_src[0], s="abc", outcome="ok", src=dict(ok_src[0]["src"], kind="registry"))
        c3 = dict(ok_load[0], outcome="panic")
        c4 = dict(ok_load[0], outcome="graph")
        with concurrent.futures.ThreadPoolExecutor(max_workers=PAR) as ex:
            selftests = list(ex.map(lambda a: C20.must_reject(ctx, a[0], a[1]),
                                    [(c1, "source-panic"), (c2, "malformed-accepted"), (c3, "load-panic"), (c4, "load-graph")]))
    else:
        raise ToolError("no event suitable for the binding self-test")

    distinct = set()
    for r in events:
        if nontrivial(r):
            distinct.add(("s", r["s"]) if r["ev"] == "ParseSource" else ("l", r["id"]))
    outcomes = {}
    for r in events:
        k = "%s:%s" % (r["ev"], r["outcome"])
        outcomes[k] = outcomes.get(k, 0) + 1
    pick = lambda evs, o: [{k: v for k, v in r.items() if k != "lock"} for r in evs if r["outcome"] == o][:1]
    return ctx.finish("exploration", {
        "evaluations": len(events),
        "distinct_nontrivial": len(distinct),
        "rule": "inputs are the TLC enumeration of LockFile.tla's field-variant grammar (source strings: prefix x head x sep x "
                "reference/version x sep x tail; dependency lines: open x dep x close x key x salt-open x salt x salt-close, each "
                "as library and contract dependency), a slice of the source strings as lock entries, every single-token "
                "deletion/duplication of real lock files, and hand-written TOML texts; an input counts as non-trivial when it "
                "got past the first gate: a source string with a recognised `kind+` prefix (or accepted), a lock text that "
                "deserialized as a Lock so that to_graph ran; inputs are distinct strings / distinct mutants",
        "exhaustive": not ctx.quick,
        "traces_validated_against_impl": accepted,
        "pool_sizes": pool_sizes,
        "events": {"source_strings": len(ev_src), "lock_loads_generated": len(ev_load), "lock_text_mutants": len(ev_mut),
                   "lock_texts_mutated": len(texts)},
        "outcomes": outcomes,
        "rejected_events": len(rej),
        "binding_selftests_rejected": selftests,
        "samples": pick(ev_src, "ok") + pick(ev_src, "error") + pick(ev_load, "graph") + pick(ev_load, "error") + pick(ev_mut, "error"),
    }, assumptions=[
        "a panic is observed through catch_unwind in the harness process (aborts / stack overflows would kill vh-lock and be "
        "reported as a tool failure, none occurs on the pool)",
        "the URL, semver and CID sub-parsers are opaque to the spec: for them only `no panic` is decided, not accept/reject",
        "lock texts reach Lock::from_path through a real file; the TOML layer is exercised by token mutations, not by a TOML grammar",
    ])


def replay(path):
    v = json.load(open(path))
    print(json.dumps({k: v[k] for k in ("property", "key", "what")}, indent=1))
    r = v.get("replay", {})
    ctx = Ctx("C21replay", "quick", 0)
    inp = os.path.join(ctx.work, "in.ndjson")
    outp = os.path.join(ctx.work, "out.ndjson")
    if r.get("ev") == "ParseSource":
        write_ndjson(inp, [{"id": r["id"], "s": r["s"]}])
        mode = "source"
    elif "lock" in r:
        write_ndjson(inp, [{"id": r["id"], "lock": r["lock"]}])
        mode = "load"
    elif "text" in r:
        write_ndjson(inp, [{"id": r["id"], "text": r["text"]}])
        mode = "load"
    else:
        print(json.dumps(r, indent=1)[:4000])
        return 0
    ctx.vh("vh-lock", ["--mode", mode, "--in", inp, "--out", outp, "--dir", ctx.work, "--keep-text"])
    res = read_ndjson(outp)[0]
    print("--- real code now:\n" + json.dumps(res, indent=1)[:4000])
    res.pop("text", None)
    write_ndjson(inp, [res])
    tr = ctx.tlc_trace("Trace_LockFile", "Trace_LockFile", inp, env=UTF8, name="replay", count=False)
    print("--- LockFile.tla: %s" % ("accepted" if tr.violated is None else "REJECTED (panic, or outcome the grammar does not allow)"))
    return 0 if tr.violated is None else 1
