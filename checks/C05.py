"""C05 IR text round-trips.

At every stage of every recorded build (initial IR and after each pass, hook H2) the tracer prints the
module, parses the text, verifies the parsed module (SSA dominance on) and prints it again, then parses and
prints once more.  Trace_Pipeline.tla (CheckRT = TRUE) accepts a stage only if the parse succeeded, the parsed
module verified, and the re-printed text is a fixpoint of parse -> print.
"""
import json
from lib.common import *
from lib import semcheck, pipecheck

POOL = list(range(501, 541))


def run(ctx):
    configs, _asm, tl = pipecheck.tlc_configs(ctx, 1)
    base = [c for c in configs if not c["edits"]]
    var = [c for c in configs if c["edits"]]
    if ctx.quick:
        seeds = slice_for_seed(POOL, ctx.seed, 4)
        configs = base + slice_for_seed(var, ctx.seed + 2, 10)
    else:
        seeds = slice_for_seed(POOL, ctx.seed, 12)
        configs = base + slice_for_seed(var, ctx.seed + 2, 80)
    pkgs = [semcheck.gen_package(s) for s in seeds]
    events, obs, failures, stats = pipecheck.build_events(ctx, pkgs, configs, procs=10, force_verify=False)
    for f in failures:
        log("[C05] note: failed build %s/%s (%s) -- judged by C03/C04/C17, not by C05" % (f["pkg"], f["cfg"], f["kind"]))
    # only completed builds are judged here
    failed_keys = {(f["pkg"], f["cfg"]) for f in failures}
    evs, keep = [], True
    for e in events:
        if e["ev"] == "Start":
            keep = (e["pkg"], e["cfg"]) not in failed_keys
        if keep:
            evs.append(e)
    pv, prej = pipecheck.validate_pipeline(ctx, evs, check_rt=True)
    for rj in prej:
        b = rj.get("build") or {}
        r = rj["record"]
        key = "roundtrip:%s:%s:%s" % (b.get("pkg"), b.get("cfg"), r.get("pass", "initial"))
        if r.get("rt_parse") == "forward-ref":
            # one mechanism, however many IR states show it: the IR parser builds blocks in textual order and
            # cannot resolve a value used in a block printed before the (dominating) block that defines it
            key = "ir-text-forward-reference"
        ctx.report(key,
                   "IR text round trip failed after %s: parse=%s reparse-fixpoint=%s verify=%s" % (
                       r.get("pass", "initial"), r.get("rt_parse"), r.get("rt_idem"), r.get("rt_verify")), rj)
    stages = sum(1 for e in evs if e["ev"] in ("Pass", "Start"))
    distinct = len({(e.get("pass"), json.dumps(e, sort_keys=True)) for e in evs if e["ev"] == "Pass" and e["changed"]})
    return ctx.finish("model_checking", {
        "traces_validated_against_impl": stats["builds"] - len(failures),
        "pipeline_events_validated": pv,
        "ir_states_round_tripped": stages, "ir_states_distinct_after_modifying_pass": distinct,
        "programs": len(pkgs), "pipeline_variants": len(configs),
        "info_first_print_equal_up_to_renaming": sum(1 for e in evs if e["ev"] == "Pass" and e["rt_norm"]),
        "samples": [e for e in evs if e["ev"] == "Pass"][:2],
    }, assumptions=[
        "criterion: parse(print(ir)) succeeds and verifies, and print(parse(print(ir))) is a fixpoint of parse->print (the first print is not compared literally: value names come from arena indices and shared constants are repeated)",
        "the behavioural half (backend-compiling the parsed module) is not covered by this check",
    ])


def replay(path):
    print(json.dumps(json.load(open(path)), indent=1)[:6000])
    return 0
