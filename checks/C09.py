"""C09 ABI encoding is canonical and round-trips -- AbiCodec.tla + vh-exec / vh-config.

1. TLC model-checks AbiCodec over bounded universes of type trees (every tree is a state): Dec(Enc(v)) = v also
   with trailing bytes, sizes within the compiler's bounds, distinct values have distinct prefix-free encodings,
   proper prefixes are rejected, agreement with SwaySem.Enc (the `log` encoding C01..C07 rely on).
2. TLC (MC_AbiCodec / Gen_AbiCodec.cfg, fixed seed) emits the conformance pool: type trees (all of depth <= 1,
   the nestings the property names, fixed-seed samples of depth 2 and 3) with representative values and their
   canonical bytes.
3. lib/abigen renders Sway test programs: per (type, value) `log(v)`, `log(encode(v))`, the raw memory of v,
   `abi_decode::<T>` of the spec's canonical bytes, the decoded value logged whole and leaf by leaf; and scripts
   whose `main` returns a value (ReturnData).  forc builds them, fuel-vm runs them.
4. Trace_AbiCodec decides every observation, including that the JSON ABI's description of the logged type is the
   type term (component order and names, str[N], generic arguments).
"""
import json, copy
from lib.common import *
from lib import abigen

def ret_jobs(ctx, recs):
    """every 90th pool type (quick: every 60th) also becomes the return type of a script's main"""
    jobs = []
    for i in range(0, len(recs), 60 if ctx.quick else 90):
        r = recs[i]
        rep = r["reps"][-1]
        jobs.append({"id": "rt%03d" % len(jobs), "t": r["t"], "v": rep["v"], "files": {"src/main.sw": abigen.ret_script(r["t"], rep["v"])},
                     "profile": "release" if len(jobs) % 2 else "debug", "want": ["diag"], "runs": [{"rid": "r0", "writes": []}]})
    return jobs


def report(ctx, rej, failures):
    for f in failures:
        # key = kind + profile + the first line of the diagnostic (the mechanism), not the package number
        msg = abigen.re.sub(r"\s+", " ", f["detail"].split("|", 1)[-1].strip())[:140]
        ctx.report("%s:%s:%s" % (f["kind"], f.get("profile", ""), msg),
                   "%s of a generated package of valid programs (%s): %s" % (f["kind"], f["pkg"], f["detail"][:300]), f)
    for rj in rej:
        r = rj["rec"]
        key = "%s:%s:%s" % (r["ev"].lower(), abigen.short_type(r["t"]), rj["failed"])
        if r["ev"] in ("Case", "Ret"):
            key += ":" + json.dumps(r["v"], separators=(",", ":"))[:120]
        ctx.report(key, "observation %s of type %s fails %s" % (r["id"], abigen.short_type(r["t"]), rj["failed"]),
                   {"record": r, "failed": rj["failed"], "expected_by_spec": rj["expected"]})


def model_check(ctx, cfgs, workers):
    for c in cfgs:
        mc = ctx.tlc("MC_AbiCodec", c, workers=workers, xss="64m", xmx="6g", timeout=3000)
        if mc.violated:
            m = abigen.re.search(r'"FAILED-FACTS", (\{[^}]*\}), "(.*)">>', mc.out)
            ctx.report("model:%s:%s" % (c, m.group(1) if m else mc.violated), "AbiCodec.tla: a statement fails for a type tree",
                       {"cfg": c, "failed": m.group(1) if m else None, "type": m.group(2).replace('\\"', '"') if m else None})


def ret_observations(ctx, rjobs):
    trace, failures = [], []
    rres = abigen.run_config_packages(ctx, [{k: v for k, v in j.items() if k not in ("t", "v")} for j in rjobs], procs=3 if ctx.quick else 6)
    for j in rjobs:
        b = rres[j["id"]]["built"]
        if b is None or not b.get("ok"):
            errs = [x.strip()[-500:] for x in ((b or {}).get("diag") or "").split("____") if x.strip().startswith("error")]
            failures.append({"pkg": j["id"], "kind": "build", "profile": j["profile"], "source": j["files"]["src/main.sw"],
                             "detail": "script returning %s: %s | %s" % (abigen.short_type(j["t"]), (b or {}).get("err"), " | ".join(errs[:1]))})
            continue
        o = abigen.observe_run(rres[j["id"]]["runs"]["r0"])
        trace.append({"ev": "Ret", "id": j["id"], "t": j["t"], "v": j["v"], "ret": o["ret"], "logs": o["logs"], "out": o["out"]})
    return trace, failures


def run(ctx):
    from concurrent.futures import ThreadPoolExecutor
    cfgs = ["MC_AbiCodec_q_C09"] if ctx.quick else ["MC_AbiCodec_d1_C09", "MC_AbiCodec_d2_C09", "MC_AbiCodec_d3_C09"]
    with ThreadPoolExecutor(max_workers=2) as ex:
        # 1. design-level model check; 2. pool.  quick: side by side (3 + 1 TLC workers); thorough: one after the other
        if ctx.quick:
            f_mc = ex.submit(model_check, ctx, cfgs, 3)
            recs = abigen.gen_pool(ctx, quick_parts=8)
            f_mc.result()
        else:
            model_check(ctx, cfgs, 4)
            recs = abigen.gen_pool(ctx, quick_parts=8)
        # 3. programs: every package in debug, every 6th (quick: the first) also in release; return-data scripts alongside
        pkgs = abigen.c09_packages(recs, "ca", per_pkg=36)
        # cases placed around the capacity of the encoder's buffer (package of their own; quick: also in release)
        bpk = abigen.c09_packages(abigen.boundary_recs(ctx.quick, ctx.seed), "cb", per_pkg=36)
        rel = [dict(p, id=p["id"].replace("ca", "cr"), profile="release") for p in (pkgs[:1] if ctx.quick else pkgs[::6])]
        rjobs = ret_jobs(ctx, recs)
        ctx.build_vh("vh-exec")
        ctx.build_vh("vh-config")
        f_ret = ex.submit(ret_observations, ctx, rjobs)
        brel = [dict(p, id=p["id"].replace("cb", "cq"), profile="release") for p in bpk]
        trace, failures = abigen.run_and_collect(ctx, pkgs + rel + bpk + brel, procs=8)
        t2, f2 = f_ret.result()
        trace += t2
        failures += f2
    # 4. the spec decides
    validated, rej = abigen.validate_trace(ctx, "Trace_AbiCodec", "Trace_AbiCodec", trace, "tr")
    report(ctx, rej, failures)
    # binding self-test: corrupt one recorded byte / one ABI component name -> rejected
    selftest = None
    if not ctx.quick and not ctx.violations:
        c1 = copy.deepcopy(next(t for t in trace if t["ev"] == "Case" and t["logs"] and t["logs"][0]))
        c1["logs"][0][-1] ^= 1
        c2 = copy.deepcopy(next(t for t in trace if t["ev"] == "Case" and t["abi"]["k"] == "struct" and len(t["abi"]["ns"]) >= 2 and t["t"]["k"] == "struct"))
        c2["abi"]["ns"] = list(reversed(c2["abi"]["ns"]))
        c3 = copy.deepcopy(next(t for t in trace if t["ev"] == "Ret" and t["ret"]))
        c3["ret"][0] ^= 128
        _, r1 = abigen.validate_trace(ctx, "Trace_AbiCodec", "Trace_AbiCodec", [c1, c2, c3], "selftest")
        selftest = {"corrupted_records": 3, "rejected": len(r1)}
        if len(r1) != 3:
            raise ToolError("binding self-test failed: %s" % selftest)
    kinds = {}
    for t in trace:
        kinds[t["ev"]] = kinds.get(t["ev"], 0) + 1
    depth = {}
    for r in recs:
        depth[r["cls"]["depth"]] = depth.get(r["cls"]["depth"], 0) + 1
    sample = next((t for t in trace if t["ev"] == "Case" and t["t"]["k"] == "struct"), trace[0] if trace else None)
    return ctx.finish("model_checking", {
        "traces_validated_against_impl": validated,
        "type_trees_in_pool": len(recs), "type_trees_by_depth": depth, "observations": kinds,
        "buffer_boundary_cases": sum(len(p["items"]) for p in bpk), "packages": len(pkgs), "packages_also_release": len(rel), "return_data_scripts": len(rjobs), "build_or_run_failures": len(failures),
        "pool": {"tlc_seed": 9, "slice": ("VERIF_SEED mod 8 = %d of the depth<=1 trees + named nestings" % (ctx.seed % 8)) if ctx.quick else "all"},
        "constants": {"model_cfgs": cfgs}, "binding_selftest": selftest,
        "samples": [{k: sample[k] for k in ("id", "t", "v", "logs", "out")}] if sample else [],
    }, assumptions=[
        "AbiCodec.tla's EncT is the reference: the Fuel ABI (encoding v1) -- integers big-endian at their width, bool 1 byte, enum = u64 tag + payload, struct/tuple/array concatenation, Vec/Bytes/String/str = u64 length + elements, str[N] raw bytes, nothing padded",
        "values are representatives per type (0, max, a mixed pattern; every enum variant; Vec lengths 0,1,3; strings of printable ASCII), not all values",
        "programs are #[test] entry points of scripts run by forc-test's executor (logs), plus scripts run as transactions whose main returns the value (return data); predicates and contract calls are not exercised here (C11)",
        "the pool is finite and deterministic (TLC enumeration, RandomSubset under -seed 9); VERIF_SEED selects the quick slice",
    ])


def replay(path):
    v = json.load(open(path))
    print(json.dumps(v, indent=1)[:8000])
    return 0
