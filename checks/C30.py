"""C30 Dependency fetching is crash-safe — GitFetch.tla + vh-fetch.

1. TLC model-checks the fetch protocol *as the code has it now* (Protocol = "marker": `.forc_index`,
   written last, is the completion marker) exhaustively: 3 files, both reference kinds, one crash or
   one I/O error at any fault point of any of 3 consecutive builds (thorough: also 4 files, 2 faults,
   4 builds).  Invariants: NoPartialCompile, ErrorThenRefetch, NoFailForever, CleanBuildCompiles,
   lock and marker sanity.
2. Teeth: the same model with Protocol = "inplace" (the protocol as it was found: the directory's
   existence is the "already fetched" test) must produce the counterexamples of finding F11.
3. vh-fetch runs the real forc_pkg code: a fault-free build to learn the fault points from the
   hook's own numbering, then for every point k x {crash, I/O error}: a faulted build process, a
   snapshot of the cache, and up to two fresh fault-free builds (plan + check + build with the real
   compiler).
4. Trace_GitFetch.tla replays every event as a GitFetch action with the observed effect and checks
   the property invariants on the replayed states.  An unmatched event (the code left the protocol)
   or a violated invariant (a build compiled a partial checkout / never refetched) is a violation.
"""
import json, os, re
from lib.common import *

EXPECT_ASIS = [("MC_GitFetch_asis", "NoPartialCompile"),
               ("MC_GitFetch_asis_forever", "ErrorThenRefetch"),
               ("MC_GitFetch_asis_forever2", "NoFailForever")]
# (parametrised definitions RmStale/GitInit/FetchRefs/Skip stand for the with_tmp_git_repo steps of both
# phases; FindErr is unreachable in the repaired protocol by design and fires only in the as-found one)
REQUIRED_ACTIONS = ["StartLocal", "StartPin", "RmStale", "GitInit", "FetchRefs", "Skip", "PinDone", "ExistsSkip",
                    "ExistsFetch", "SetHead", "Mkdir", "CheckoutFile", "CheckoutEnd", "WriteIndex", "TmpDone",
                    "FindOk", "Compile", "Crash", "IoError", "NextBuild"]


def last_l(tlc_out):
    m = re.findall(r"^/\\ l = (\d+)\s*$", tlc_out, flags=re.M)
    return int(m[-1]) if m else None


def scenario_bounds(events, i):
    """events[i] belongs to which scenario: (index of its Begin, index after its End)."""
    b = i
    while b > 0 and events[b]["ev"] != "Begin":
        b -= 1
    e = i
    while e < len(events) and events[e]["ev"] != "End":
        e += 1
    return b, min(e + 1, len(events))


def describe(events, b, e):
    """Mechanical summary of one scenario for the violation file."""
    beg = events[b]
    builds = []
    cur = None
    for ev in events[b:e]:
        k = ev["ev"]
        if k == "BuildStart":
            cur = {"b": ev["b"], "faulted": ev["faulted"], "points": 0, "entered_fetch": False}
            builds.append(cur)
        elif cur is None:
            continue
        elif k == "Point":
            cur["points"] += 1
            cur["entered_fetch"] = cur["entered_fetch"] or ev["point"] == "fetch.set_head"
        elif k == "Planned":
            cur["planned"] = ev["ok"]
            if not ev["ok"]:
                cur["plan_error"] = ev["err"][:160]
        elif k == "CompileBegin":
            cur["files_present_at_compile"] = [beg["tree"][i - 1] for i in ev["present"]]
            cur["index_present"] = ev["index"]
        elif k == "Compiled":
            cur["compiled_ok"] = ev["ok"]
            if ev.get("diags"):
                cur["diags"] = ev["diags"][:2]
        elif k == "BuildEnd":
            cur["outcome"] = ev["outcome"]
        elif k == "Snapshot":
            cur["cache_after"] = {"dir": ev["dir"], "files": len(ev["files"]), "of": beg["n"],
                                  "index": ev["index"], "stale_tmp": ev["tmp"]}
    return {"scenario": beg["sc"], "ref": beg["ref"], "mode": beg["mode"], "k": beg["k"],
            "point": beg["point"], "tree": beg["tree"], "builds": builds}


def validate(ctx, events, cfg="Trace_GitFetch", tag="trace", report=True):
    """Replay the events through Trace_GitFetch; after a rejection report the scenario and go on with
    the next one.  Returns (events accepted, scenarios accepted, list of (key, what, scenario))."""
    ok_events = 0
    ok_scen = 0
    bad = []
    pos = 0
    rnd = 0
    while pos < len(events):
        chunk = events[pos:]
        tp = os.path.join(ctx.work, "%s-%d.ndjson" % (tag, rnd))
        write_ndjson(tp, chunk)
        tr = ctx.tlc_trace("Trace_GitFetch", cfg, tp, name="%s%d" % (tag, rnd), count=False, timeout=900)
        rnd += 1
        if tr.violated is None:
            ok_events += len(chunk)
            ok_scen += sum(1 for e in chunk if e["ev"] == "End")
            break
        if tr.violated == "postcondition":
            k = tr.first_unmatched()
            if k is None:
                raise ToolError("trace validation failed without FIRST-UNMATCHED")
            i = k - 1
            what = "event %s of build %s is not a step the model (%s) allows there" % (
                chunk[i]["ev"], chunk[i].get("b"), cfg)
            kind = "unmatched:" + chunk[i]["ev"]
        else:
            l = last_l(tr.counterexample())
            if l is None:
                raise ToolError("trace validation: invariant %s violated but no position found" % tr.violated)
            i = max(l - 2, 0)
            what = "invariant %s is violated by the real behaviour" % tr.violated
            kind = "invariant:" + tr.violated
        b, e = scenario_bounds(chunk, i)
        d = describe(chunk, b, e)
        d["failing_event"] = chunk[i]
        d["verdict"] = what
        key = "%s-%s@%s#%s:%s" % (d["ref"], d["mode"], d["point"], d["k"], kind)
        bad.append((key, what, d))
        if report:
            ctx.report(key, "%s: %s" % (d["scenario"], what),
                       {"scenario": d, "events": chunk[b:e], "cfg": cfg})
        ok_events += b
        ok_scen += sum(1 for x in chunk[:b] if x["ev"] == "End")
        pos += e
    return ok_events, ok_scen, bad


def run_harness(ctx, name, refs, prelock, slice_=None, only=None):
    outp = os.path.join(ctx.work, "events-%s.ndjson" % name)
    args = ["run", "--work", os.path.join(ctx.work, "fetch-" + name), "--out", outp,
            "--refs", ",".join(refs), "--prelock", prelock, "--builds", 3, "--timeout-s", 120]
    if slice_:
        args += ["--slice", slice_]
    if only:
        args += ["--only", only]
    p = ctx.vh("vh-fetch", args, env={"HOME": os.path.join(ctx.work, "home-unused"),
                                      "GIT_CONFIG_NOSYSTEM": "1"}, timeout=3000)
    evs = read_ndjson(outp)
    for e in evs:
        if e["ev"] == "HarnessError":
            raise ToolError("vh-fetch: %s" % e)
    return evs


def run_parallel(ctx, jobs):
    import threading
    res = [None] * len(jobs)
    err = []

    def work(i, j):
        try:
            res[i] = []
            for c in j:
                res[i] += run_harness(ctx, c[0], c[1], c[2], slice_=c[3])
        except Exception as e:  # re-raised in the caller's thread
            err.append(e)

    ctx.build_vh("vh-fetch")
    ts = [threading.Thread(target=work, args=(i, j)) for i, j in enumerate(jobs)]
    for t in ts:
        t.start()
    for t in ts:
        t.join()
    if err:
        raise err[0]
    return res


def run(ctx):
    # ---- 1. the protocol, exhaustively
    mc = ctx.tlc("GitFetch", "MC_GitFetch", workers=4, coverage=True)
    if mc.violated:
        ctx.report("model:" + mc.violated, "GitFetch.tla (repaired protocol) violates " + mc.violated,
                   {"tlc": mc.counterexample()[:6000]})
    cov = mc.coverage_actions()
    dead = [a for a in REQUIRED_ACTIONS if cov.get(a, (0, 0))[1] == 0]
    if dead or not cov:
        raise ToolError("vacuous model run: actions never taken: %s" % (dead or "no coverage output"))
    if not ctx.quick:
        mc2 = ctx.tlc("GitFetch", "MC_GitFetch2", workers=4)
        if mc2.violated:
            ctx.report("model2:" + mc2.violated, "GitFetch.tla (repaired protocol, 2 faults) violates " + mc2.violated,
                       {"tlc": mc2.counterexample()[:6000]})
    # ---- 2. teeth: the protocol as found must show F11
    teeth = {}
    for cfg, inv in (EXPECT_ASIS[:1] if ctx.quick else EXPECT_ASIS):
        r = ctx.tlc("GitFetch", cfg, workers=2, count=False)
        teeth[cfg] = r.violated
        if r.violated != inv:
            raise ToolError("the as-found protocol (%s) should violate %s, TLC says %s" % (cfg, inv, r.violated))
    # ---- 3. the real code under every fault point
    # (two harness processes side by side: each is one sequential chain of short-lived agents)
    if ctx.quick:
        # every fault point of the branch configuration; a seed-selected fifth of the tag configuration
        jobs = [[("branch", ["branch"], "0", None)], [("tag", ["tag"], "0", "%d/5" % (ctx.seed % 5))]]
    else:
        jobs = [[("nolock", ["branch", "tag", "rev"], "0", None)],
                [("default", ["default"], "0", None), ("lock", ["branch", "tag"], "1", None)]]
    events = []
    for part in run_parallel(ctx, jobs):
        events += part
    scen = [e for e in events if e["ev"] == "Begin"]
    if len(scen) < 20:
        raise ToolError("vh-fetch produced only %d scenarios" % len(scen))
    npoints = sorted(set((e["ref"], e["prelock"], e["npoints"]) for e in scen))
    if any(n[2] < 20 for n in npoints):
        raise ToolError("too few fault points seen (hook H7 inactive?): %s" % npoints)
    # ---- 4. trace validation
    ok_events, ok_scen, bad = validate(ctx, events)
    # ---- 5. binding self-tests (thorough): a corrupted trace must be rejected
    selftest = {}
    if not ctx.quick:
        first = [i for i, e in enumerate(events) if e["ev"] == "End"][:8]
        sub = events[:first[-1] + 1]

        def mutate(name, f):
            m = json.loads(json.dumps(sub))
            f(m)
            _, _, b = validate(ctx, m, tag="self-" + name, report=False)
            selftest[name] = [x[0] for x in b][:1]
            if not b:
                raise ToolError("binding self-test %s: corrupted trace was accepted" % name)

        def flip_compiled(m):
            e = [x for x in m if x["ev"] == "Compiled"][0]
            e["ok"] = not e["ok"]

        def drop_file(m):
            e = [x for x in m if x["ev"] == "Snapshot" and len(x["files"]) == x_n(m)][0]
            e["files"] = e["files"][:-1]

        def x_n(m):
            return m[0]["n"]

        def drop_point(m):
            i = [j for j, x in enumerate(m) if x["ev"] == "Point" and x["point"] == "fetch.mkdir"][0]
            del m[i]

        def partial_compile(m):
            # pretend the later build compiled while one file was missing
            e = [x for x in m if x["ev"] == "CompileBegin"][-1]
            e["present"] = e["present"][:-1]

        def no_refetch(m):
            # pretend a crashed checkout was followed by a build that did not fetch again:
            # cut the fetch body out of the first later build that has one
            bs = [j for j, x in enumerate(m) if x["ev"] == "BuildStart" and x["b"] == 2]
            for j in bs:
                body = [t for t in range(j, len(m)) if m[t]["ev"] == "Point" and m[t]["b"] == 2
                        and m[t]["sc"] == m[j]["sc"] and m[t]["point"] not in ("Fetch.locked",)
                        and t > [u for u in range(j, len(m)) if m[u]["ev"] == "Point" and m[u]["point"] == "Fetch.locked"][0]]
                if body:
                    for t in reversed(body):
                        del m[t]
                    return
            raise ToolError("self-test no_refetch: no later build with a fetch body in the sample")

        mutate("flip_compiled", flip_compiled)
        mutate("drop_file", drop_file)
        mutate("drop_point", drop_point)
        mutate("partial_compile", partial_compile)
        mutate("no_refetch", no_refetch)
    # ---- evidence
    modes = {}
    for e in scen:
        modes[e["mode"]] = modes.get(e["mode"], 0) + 1
    later = [e for e in events if e["ev"] == "BuildStart" and e["b"] >= 2]
    refetching = set()
    for e in events:
        if e["ev"] == "Point" and e["b"] >= 2 and e["point"] == "fetch.set_head":
            refetching.add((e["sc"], e["b"]))
    compiled = [e for e in events if e["ev"] == "CompileBegin"]
    samples = []
    for want in ("crash", "fail"):
        for i, e in enumerate(events):
            if e["ev"] == "Begin" and e["mode"] == want and e["point"] == "fetch.checkout.file" and e["k"] >= 17:
                b, en = scenario_bounds(events, i)
                d = describe(events, b, en)
                d.pop("tree", None)
                samples.append(d)
                break
    for i, e in enumerate(events):
        if e["ev"] == "Begin" and e["mode"] == "fail" and e["point"] == "fetch.checkout":
            b, en = scenario_bounds(events, i)
            d = describe(events, b, en)
            d.pop("tree", None)
            samples.append(d)
            break
    return ctx.finish("model_checking", {
        "traces_validated_against_impl": ok_scen,
        "trace_events_validated": ok_events,
        "exhaustive": True,
        "constants": {"model": "NFiles=3, MaxBuilds=3, MaxFaults=1, both reference kinds"
                               + ("" if ctx.quick else "; and NFiles=4, MaxBuilds=4, MaxFaults=2"),
                      "real_tree_files": scen[0]["n"], "builds_per_scenario": "1 faulted + up to 2 fresh"},
        "scenarios": len(scen), "scenarios_by_mode": modes,
        "fault_points_per_config": [{"ref": r, "prelock": p, "points": n} for r, p, n in npoints],
        "later_builds_run": len(later), "later_builds_that_refetched": len(refetching),
        "compilations_observed": len(compiled),
        "compilations_on_partial_checkout": sum(1 for e in compiled if len(e["present"]) != scen[0]["n"]),
        "as_found_protocol_counterexamples": teeth,
        "binding_selftests_rejected": selftest,
        "action_coverage": cov,
        "samples": samples,
    }, assumptions=[
        "one build process at a time (sequential builds); concurrent builders contending for the advisory lock are not modelled",
        "faults are injected at the hook-H7 points (before/after each file-system effect and between the files of the checkout); "
        "a crash inside one libgit2 call or inside fs::write of .forc_index (torn single file) is not injected",
        "the dependency is a local file:// repository created with git2; network transports are not exercised",
        "in this tree a Forc.lock never short-circuits pin + Fetch::fetch for a git dependency (validate_dep looks the "
        "dependency up among workspace members), so a pre-existing lock file does not change the fetch path; "
        "the thorough tier replays the lock-file configurations too and binds this observation",
    ])


def replay(path):
    v = json.load(open(path))
    print(json.dumps({k: v[k] for k in ("property", "key", "what")}, indent=1))
    sc = v["replay"].get("scenario", {})
    print("model side: cfg=%s; verdict: %s" % (v["replay"].get("cfg"), sc.get("verdict")))
    print(json.dumps(sc.get("builds"), indent=1))
    name = sc.get("scenario")
    if not name:
        return 0
    ctx = Ctx("C30.replay", "quick", 0)
    ref, lockcfg = name.split("-")[0], name.split("-")[1]
    try:
        evs = run_harness(ctx, "replay", [ref], "1" if lockcfg == "lock" else "0", only=name)
        _, _, bad = validate(ctx, evs, report=False)
    except ToolError as e:
        print("TOOL-ERROR:", e)
        return 2
    print("re-executed %s: %s" % (name, "REPRODUCED: " + bad[0][1] if bad else "accepted by Trace_GitFetch (not reproduced)"))
    if bad:
        print(json.dumps(bad[0][2]["builds"], indent=1))
    return 1 if bad else 0
