"""C19 Formatting preserves program meaning and comments — FmtTransducer.tla + vh-fmt.

1. TLC model-checks the transducer's own sanity on small token strings (MC_Fmt: every seed string x
   every output within edit distance 1 (quick) / 2 (thorough); invariants EssentialPreserved,
   TuplesPreserved, FewAlternatives; expected accept / reject lists; action coverage).
2. Pool: every .sw file under /repo (read in place) x configurations + TLC-enumerated comment /
   blank-line insertions at token boundaries of the seed files (Gen_Fmt.tla).
3. vh-fmt formats each input and records the code-token and comment streams of input and output
   (lex_commented) and whether the output parses.
4. Trace_Fmt.tla (TraceSpec19) must drive the two-cursor transducer to the end of both streams for
   every event of an accepted source (rejected inputs are skipped by the spec).
"""
import os, json
from lib.common import *
from checks._fmt_common import *


def build_jobs(ctx):
    files = repo_sw_files()
    seeds = seed_files()
    jobs = []
    if ctx.quick:
        fsel = slice_for_seed(files, ctx.seed, 300)
        cfgs = ["default", "w40"]
    else:
        fsel = files
        cfgs = CFGS_ALL_FILES
    for c in cfgs:
        for f in fsel:
            jobs.append({"cfg": c, "file": f})
    for c in cfgs + CFGS_SEEDS_ONLY:
        for f in (seeds[:CRLF_SEEDS] if c == "crlf" else seeds):
            jobs.append({"cfg": c, "file": f})
    vseeds = variant_seeds(ctx)
    vjobs, n1, n2 = enumerate_variants(ctx, vseeds, pairs_sim=0 if ctx.quick else 1)
    if ctx.quick:
        vjobs = slice_for_seed(vjobs, ctx.seed, 1200)
    for c in ["default"]:
        for j in vjobs:
            jobs.append(dict(j, cfg=c))
    for i, j in enumerate(jobs):
        j["id"] = i
    return jobs, {"repo_files": len(fsel), "repo_files_total": len(files), "configs": cfgs,
                  "seed_files": len(seeds), "variant_seeds": len(vseeds),
                  "single_insertions_enumerated": n1, "pair_insertions_enumerated": n2,
                  "variants_run": len(vjobs)}


def describe(e, hw):
    if e.get("status") == "ok" and not all(s in e for s in STREAMS):
        return "the output (or input) could not be lexed into token streams", {}
    cin, cout = e["cin"], e["cout"]
    if hw is None:
        return "not in the transducer's relation", {}
    i, j = hw
    ctx_in = [t[1] for t in cin[max(0, i - 6):i + 5]]
    ctx_out = [t[1] for t in cout[max(0, j - 6):j + 5]]
    code_done = i == len(cin) + 1 and j == len(cout) + 1
    info = {"first_unmatched_input_index": i, "first_unmatched_output_index": j,
            "input_around": ctx_in, "output_around": ctx_out}
    if code_done:
        if not e.get("parses"):
            return "the formatted text does not parse", info
        info["comments_in"] = len(e["min"])
        info["comments_out"] = len(e["mout"])
        k = 0
        while k < len(e["min"]) and k < len(e["mout"]) and e["min"][k] == e["mout"][k]:
            k += 1
        info["first_unmatched_comment_in"] = e["min"][k] if k < len(e["min"]) else None
        info["first_unmatched_comment_out"] = e["mout"][k] if k < len(e["mout"]) else None
        return "comments are not preserved in order (input has %d, output %d)" % (len(e["min"]), len(e["mout"])), info
    a = cin[i - 1] if i <= len(cin) else ["eof", ""]
    b = cout[j - 1] if j <= len(cout) else ["eof", ""]
    return "no allowed move at input token %r vs output token %r" % (a[1], b[1]), info


def run(ctx):
    # 1. the transducer's own sanity
    mc = ctx.tlc("MC_Fmt", "MC_Fmt" if ctx.quick else "MC_Fmt2", workers=1, coverage=True, xss="64m",
                 timeout=3000)
    if mc.violated:
        ctx.report("model:" + mc.violated, "FmtTransducer.tla fails its own sanity model: " + mc.violated,
                   {"tlc": (mc.counterexample() or mc.out[-3000:])[:6000]})
    cov = mc.coverage_actions()
    for a in ["CopyN", "AddTrailingComma", "DropTrailingComma", "DropOpenParen", "DropCloseParen", "UseStmt"]:
        if not mc.violated and (a not in cov or cov[a][1] == 0):
            raise ToolError("anti-vacuity: action %s never fired in MC_Fmt (%s)" % (a, cov))
    import re
    m = re.search(r'<<"ACCEPTED-PAIRS", (\d+)>>', mc.out)
    accepted_pairs = int(m.group(1)) if m else None

    # 2./3. pool and real formatter
    jobs, pool = build_jobs(ctx)
    evs = run_vh_fmt(ctx, jobs, tokens=True, name="c19")
    # 4. trace validation
    rejected, nshards = validate(ctx, evs, "Trace_Fmt", tokens=True, max_events=1500, name="t19")
    byid = {e["id"]: e for e in evs}
    hws = high_water(ctx, [byid[r] for r in sorted(rejected)], "hw") if rejected else {}
    for n, rid in enumerate(sorted(rejected)):
        e = byid[rid]
        key = job_key(e["job"])
        hw = hws.get(rid)
        what, info = describe(e, hw)
        ctx.report(key, "%s [%s]" % (what, key), {"job": e["job"], "what": what, "detail": info,
                                                   "parses": e.get("parses")})
    st = {}
    for e in evs:
        st[e.get("status")] = st.get(e.get("status"), 0) + 1
    accepted = [e for e in evs if e.get("status") == "ok"]
    changed = [e for e in accepted if all(s in e for s in STREAMS) and e["cin"] != e["cout"]]
    ntok = sum(len(e["cin"]) for e in accepted if "cin" in e)
    ncom = sum(len(e["min"]) for e in accepted if "min" in e)
    refused_parseable = [job_key(e["job"]) for e in evs if e.get("status") != "ok" and e.get("inparses")]
    # binding self-test (thorough): drop one token / one comment from a recorded output
    selftest = None
    if not ctx.quick:
        import copy
        good = [e for e in accepted if e["id"] not in set(rejected) and len(e.get("cout", [])) > 10 and e.get("mout")][:20]
        if len(good) >= 3:
            mut = copy.deepcopy(good)
            # (a) drop an identifier token from one output (partner map recomputed is unnecessary: 0s)
            k = next(x for x, t in enumerate(mut[0]["cout"]) if t[0] == "i" and x > 2)
            del mut[0]["cout"][k]
            del mut[0]["pout"][k]
            mut[0]["pout"] = [p - 1 if p > k + 1 else p for p in mut[0]["pout"]]
            # (b) drop a comment
            del mut[1]["mout"][0]
            # (c) claim the output does not parse
            mut[2]["parses"] = False
            rej2, _ = validate(ctx, mut, "Trace_Fmt", tokens=True, max_events=1500, name="t19self")
            want = sorted(m_["id"] for m_ in mut[:3])
            selftest = sorted(rej2) == want
            if not selftest:
                raise ToolError("binding self-test failed: corrupted events %s, rejected %s" % (want, sorted(rej2)))
    return ctx.finish("model_checking", {
        "traces_validated_against_impl": len(accepted) - len([r for r in rejected]),
        "events": len(evs),
        "accepted_sources": len(accepted),
        "events_rejected_by_spec": len(rejected),
        "code_tokens_walked": ntok,
        "comments_walked": ncom,
        "outputs_differing_in_code_tokens": len(changed),
        "statuses": st,
        "formatter_refused_parseable_source": len(refused_parseable),
        "formatter_refused_parseable_source_samples": refused_parseable[:10],
        "mc_accepted_pairs": accepted_pairs,
        "action_coverage": cov,
        "pool": pool,
        "trace_shards": nshards,
        "binding_selftest_corrupted_events_rejected": selftest,
        "exhaustive_scope": "MC_Fmt: all outputs within edit distance %d of %d seed token strings" % (1 if ctx.quick else 2, 18),
        "samples": [{"key": job_key(e["job"]), "code_tokens": len(e["cin"]), "comments": len(e["min"]),
                     "output_code_tokens": len(e["cout"])} for e in (changed[:2] + accepted[-2:])],
    }, assumptions=[
        "meaning is approximated by the code-token sequence (kind + text) of sway_parse::lex_commented; white "
        "space, punctuation spacing (Joint/Alone) and comment placement relative to code tokens are not compared",
        "comment texts are compared after trimming trailing white space; their order must be identical",
        "allowed rewrites: trailing comma before a closing delimiter / at the end of a where clause (never "
        "turning (e) into (e,) or back), `(T)` -> `T` in type position, and `use` statements importing the same bag of paths",
        "TLC model-checks the transducer on small strings only; membership of each real pair is decided by "
        "Trace_Fmt.tla walking the recorded streams (runs of equal tokens are taken as one CopyN step)",
        "a formatter panic / internal error on a parseable source yields no formatted text: counted, not a C19 violation",
        "newline_style=Windows and field_alignment are exercised on the seed files only (see notes/C18.md)",
    ])


def replay(path):
    import subprocess
    v = json.load(open(path))
    job = v["replay"]["job"]
    tmp = path + ".job.json"
    with open(tmp, "w") as f:
        f.write(json.dumps(job) + "\n")
    exe = os.path.join(VH, "target", "release", "vh-fmt")
    p = subprocess.run([exe, "--show", "--in", tmp], stdout=subprocess.PIPE, text=True)
    print(p.stdout)
    print("FmtTransducer:", v["replay"].get("what"))
    print(json.dumps(v["replay"].get("detail"), indent=1))
    return 0
