"""C28 Persistent storage collections behave like their models -- StorageModels.tla + vh-exec.

1. TLC checks that the slot layer (sway-lib-std/src/storage/*.sw transcribed over a store of 32-byte slots with
   symbolic, injective hash terms) refines the abstract layer (sequences, maps, byte strings): on every history to
   closure under small bounds, per field type and for pairs of fields, reading everything back through the slot
   layer gives the abstract state, returned values agree, reverts agree, and an operation leaves every other
   field and key unchanged.  A mutant of the slot layer (element offsets without word padding) must be refuted.
2. Gen_StorageModels.tla produces the deterministic pool of pseudo-random histories (8 / 16 / 30 operations over
   all nine fields; only the last operation of a history may revert), checking the refinement along each of them.
3. One generated contract exposes the operations through an interpreter `run(ops)`; every history is ONE #[test]
   (one call from the deployment state); after every operation the contract logs a full read-back of all fields
   and keys.
4. Trace_StorageModels.tla replays every executed history through the abstract layer.
"""
import json, os
from lib.common import *
from lib import contractgen as cg
from lib import stormodels_contract as sc

PER_PKG = 75
QUICK_N = 40
QUICK_PER_PKG = 20

THOROUGH_MCS = ["MC_StorageModels_vecA", "MC_StorageModels_vecB", "MC_StorageModels_vecC", "MC_StorageModels_maps",
                "MC_StorageModels_mapN", "MC_StorageModels_mapV", "MC_StorageModels_slices", "MC_StorageModels_slices2", "MC_StorageModels_pair"]
QUICK_MCS = ["MC_StorageModels_vecA_q", "MC_StorageModels_mapN", "MC_StorageModels_slices2"]


def package(pid, recs):
    src = sc.contract_source() + "".join(sc.test_source("h%d" % r["id"], r["ops"]) for r in recs)
    return {"id": pid, "files": {"src/main.sw": src}, "manifest": cg.manifest(pid), "profile": "debug", "want": ["diag"]}


def trace_record(rec, obs):
    per_op, tail = sc.split_history(obs["logs"], len(rec["ops"]))
    return {"id": rec["id"], "ops": rec["ops"], "obs": per_op, "tail": tail, "out": obs["out"], "code": obs["code"]}


def hist_key(rec):
    return "history:" + ";".join("%s.%s(%d,%d,%d)" % (o["f"], o["op"], o["a"], o["b"], o["c"]) for o in rec["ops"])


def run(ctx):
    # 1. model checking: the slot layer refines the abstract layer
    first = None
    for cfg in (QUICK_MCS if ctx.quick else THOROUGH_MCS):
        # (TLC's -coverage runs out of memory on this module -- deep recursive operators -- so anti-vacuity is
        #  established differently: every run must have taken transitions, and every operation of the model must
        #  occur in the executed pool, see below)
        mc = ctx.tlc("MC_StorageModels", cfg, workers=4, xss="64m", timeout=3000)
        first = first or mc
        if mc.generated < 100:
            raise ToolError("configuration %s explored only %d states" % (cfg, mc.generated))
        if mc.violated:
            ctx.report("model:%s:%s" % (cfg, mc.violated), "StorageModels.tla: the slot layer does not refine the abstract layer (%s, %s)" % (cfg, mc.violated),
                       {"tlc": mc.counterexample()[:8000]})
    cov = {"Step": [r["distinct"], r["generated"]] for r in ctx.tlc_runs[:1]}
    mut_violated = "not run in the quick tier"
    if not ctx.quick:
        mut = ctx.tlc("MC_StorageModels", "MC_StorageModels_mut_nopad", workers=2, xss="64m", count=False)
        if mut.violated not in ("Refines", "RetAgree"):
            raise ToolError("the mutant slot layer (element offsets without word padding) was not refuted: %s" % mut.violated)
        mut_violated = mut.violated
    # 2. the pool of histories (the refinement is checked along every one of them)
    gen = ctx.tlc("Gen_StorageModels", "Gen_StorageModels_q" if ctx.quick else "Gen_StorageModels", workers=4, xss="64m", timeout=3000)
    if gen.violated:
        ctx.report("model:gen:" + gen.violated, "StorageModels.tla: refinement fails along a generated history (%s)" % gen.violated,
                   {"tlc": gen.counterexample()[:8000]})
    pool = sorted(gen.printed("REPLAY"), key=lambda r: r["id"])
    recs = slice_for_seed(pool, ctx.seed, QUICK_N) if ctx.quick else pool
    # 3. build and run: the same contract in a few packages so that they build in parallel
    per = QUICK_PER_PKG if ctx.quick else PER_PKG
    groups = cg.chunks(recs, per)
    pkgs = [package("c28p%d" % i, g) for i, g in enumerate(groups)]
    from lib import swayexec
    res = swayexec.run_packages(ctx, pkgs, procs=4)
    trs = []
    for i, g in enumerate(groups):
        r = res["c28p%d" % i]
        b = r["built"]
        if r["crashed"] or not b or not b.get("ok") or r["runfailed"]:
            raise ToolError("package c28p%d failed to build/run: %s" % (i, json.dumps([r["crashed"], b, r["runfailed"]])[-4000:]))
        obs = {t["test"]: swayexec.observe(t) for t in r["tests"]}
        for rec in g:
            if "h%d" % rec["id"] not in obs:
                raise ToolError("history h%d did not run" % rec["id"])
            trs.append(trace_record(rec, obs["h%d" % rec["id"]]))
    byid = {r["id"]: r for r in recs}
    # 4. trace validation; the binding self-test rides along
    cand = [t for t in trs if t["out"] == "return" and len(t["ops"]) >= 8]
    base = cand[len(cand) // 2]
    muts = []
    m = json.loads(json.dumps(base)); m["obs"][3]["dump"][0][7] ^= 1; muts.append(m)               # a length read back
    m = json.loads(json.dumps(base)); d = m["obs"][-1]["dump"]; d[len(d) // 2] = d[len(d) // 2] + [0]; muts.append(m)   # one read in the middle
    m = json.loads(json.dumps(base)); m["ops"][1], m["ops"][2] = m["ops"][2], m["ops"][1]
    if m["ops"][1] != m["ops"][2]:
        muts.append(m)                                                                             # the order of two operations
    m = json.loads(json.dumps(base)); m["out"] = "revert"; muts.append(m)
    for m in muts:
        m["mut"] = True
    validated, rejected = cg.validate_all(ctx, "Trace_StorageModels", "Trace_StorageModels", trs + muts, shard=80, par=4)
    mut_rej = [x for x in rejected if x[0].get("mut")]
    rejected = [x for x in rejected if not x[0].get("mut")]
    validated -= len(muts) - len(mut_rej)
    for tr, why in rejected:
        ctx.report(hist_key(byid[tr["id"]]), "storage collections disagree with StorageModels.tla on this history",
                   {"record": tr, "test": sc.test_source("h%d" % tr["id"], tr["ops"])})
    if not any(x[0] is base for x in rejected) and len(mut_rej) < len(muts) - 1:
        # (swapping two operations of different fields may commute in the final read-backs only if both are no-ops)
        raise ToolError("binding self-test: %d of %d corrupted records were rejected" % (len(mut_rej), len(muts)))
    nops = sum(len(t["obs"]) for t in trs)
    byop = {}
    for t in trs:
        for o in t["ops"]:
            byop["%s.%s" % (o["f"], o["op"])] = byop.get("%s.%s" % (o["f"], o["op"]), 0) + 1
    all_ops = (["%s.%s" % (f, o) for f in ("vecA", "vecB", "vecC") for o in sc.VEC_OP] + ["%s.%s" % (f, o) for f in ("mapA", "mapB") for o in sc.MAP_OP]
               + ["mapN.insert", "mapN.remove"] + ["mapV.%s" % o for o in sc.MAPV_OP] + ["%s.%s" % (f, o) for f in ("bytesA", "strA") for o in sc.SLICE_OP])
    missing = [o for o in all_ops if o not in byop]
    if missing and not ctx.quick:
        raise ToolError("operations never executed by the pool: %s" % missing)
    return ctx.finish("model_checking", {
        "traces_validated_against_impl": validated,
        "histories_run": len(trs), "pool_size": len(pool), "operations_executed": nops,
        "reads_compared": sum(len(o["dump"]) for t in trs for o in t["obs"]),
        "histories_ending_in_revert": sum(1 for t in trs if t["out"] == "revert"),
        "distinct_operations": len(byop), "operation_counts": byop,
        "mutant_model_refuted_by": mut_violated, "binding_selftests_rejected": len(mut_rej),
        "action_coverage": cov,
        "samples": [{"history": hist_key(byid[trs[0]["id"]])[:600], "out": trs[0]["out"],
                     "first_dump": [bytes(x).hex() for x in trs[0]["obs"][0]["dump"]][:12] if trs[0]["obs"] else []}],
    }, assumptions=[
        "sha256 is an uninterpreted injective function whose values are far apart (hash terms = construction paths) in the slot layer",
        "quads-based storage (experimental dynamic_storage = false, the default)",
        "read_slice of an empty StorageBytes / StorageString is None ('the valid Bytes stored, otherwise None'); StorageKey::clear's bool is not compared",
        "element types: u64, u8, a 24-byte struct; keys: u64, (u64, u64), nested maps, a vector inside a map; value codes 1..3, keys 1..3",
        "the pool is finite and deterministic (linear congruential generator inside the specification); VERIF_SEED selects the quick slice",
    ])


def replay(path):
    v = json.load(open(path))
    print(v.get("what"), v.get("key"))
    print(v["replay"].get("test", ""))
    print(json.dumps(v["replay"].get("record", v["replay"]), indent=None)[:6000])
    return 0
