"""C06 Compile-time evaluation agrees with run-time evaluation — ConstEval.tla + vh-exec.

1. TLC model-checks ConstEval.tla on the whole pool (every operator x width x ordered pair of
   boundary operands, shifts, casts, b256 ops, two-operator chains, tuples/arrays): the compiler's two evaluators
   as the code has them (CE = front-end const_eval.rs reading std's ops.sw; Fold = IR
   const-folding rules) against the run-time meaning Sem (SwaySem/IntSem): Agreement,
   NoSubstitution on Abort, NoPanic.  One replay record per case is printed.
2. Every case is rendered (mechanically, lib/swaygen.Renderer) four ways and built/run by vh-exec:
     a  `const C: T = e;` + `log(C)`                        (front-end const_eval.rs; debug)
     g  `configurable { C: T = e }` + `log(C)`              (a slice; debug)
     h  `const C: T = fl(R, L)` with `fn fl(a, b) { cf(b, a) }`, `fn cf(a, b) { a op b }`  (a slice of the binary
        cases: compile-time function application, parameter names of caller and callee collide; debug)
     b  `log(e)` in a function body, release                (IR const-folding)
     p  `let x = id(a); if x == a { log(x op b) }`, release (ccp + const-folding; a slice)
     c  `log(id(a) op id(b))`, operands laundered through #[inline(never)] identities, debug (VM)
   Cases that are expected not to compile as a const (Sem aborts, or CE refuses) are grouped in
   packages of their own; hook H8 (SWAY_VERIF_CONST_TRACE) reports the verdict of every const
   declaration of such a package individually.
3. Trace_ConstEval.tla decides every observation: c = Sem; a/g = Sem's value, or a compile error
   where Sem aborts or CE refuses; b/p = Sem, or a compile error where Sem aborts.  Never a
   compiler panic, never a substituted value.
"""
import json, os, re, hashlib
from concurrent.futures import ThreadPoolExecutor
from lib.common import *
from lib.swaygen import Renderer, r_lit, WIDTH
from lib.swayexec import run_packages, observe

TYPES = ["u8", "u16", "u32", "u64", "u256"]
CLASSES = ["bin", "shift", "not", "widen", "narrow", "chain", "agg"]
PROCS = 4
BATCH_RUN = 300        # cases per package whose tests run on the VM
BATCH_REFUSE = 400     # cases per package expected not to compile (verdicts come from hook H8)
BATCH_CFG = 100        # configurables per package (140 u256 configurables logged by one package panic the compiler:
                       # "4096 cannot fit in 12 bits" -- a C17 matter, see notes/C06.md)
CONST_ERR = "Could not evaluate initializer to a const declaration"
CFG_ERR = "Could not evaluate initializer"
R = Renderer({"structs": {}, "enums": {}, "fns": {}})
IDS = "".join("#[inline(never)] fn id_%s(x: %s) -> %s { x }\n" % (t, t, t) for t in TYPES + ["b256"])


# ------------------------------------------------------------------ pool (from TLC)
def case_key(c):
    return json.dumps([c["cls"], c["ty"], c["e"]], sort_keys=True, separators=(",", ":"))


def describe(e):
    """Human-readable Sway text of a case expression (for keys and messages)."""
    return R.expr(e)


CHAIN_PAIRS = ["add-sub", "sub-add", "mul-div", "div-mul"]


def mc_cfg(ctx, name, **subst):
    """A copy of MC_ConstEval.cfg with some CONSTANT lines replaced."""
    text = open(os.path.join(SPEC, "MC_ConstEval.cfg")).read()
    for k, v in subst.items():
        text, n = re.subn(r"CONSTANT %s = .*\n" % k, "CONSTANT %s = %s\n" % (k, v), text)
        if n != 1:
            raise ToolError("MC_ConstEval.cfg: no CONSTANT %s line" % k)
    p = os.path.join(ctx.work, name + ".cfg")
    with open(p, "w") as f:
        f.write(text)
    return p


def tla_set(xs):
    return "{" + ", ".join(('"%s"' % x) if isinstance(x, str) else str(x) for x in xs) + "}"


def enumerate_pool(ctx):
    """Model-check ConstEval.tla on the pool and collect one replay record per case.
    thorough: the whole pool.  quick: four of the ten boundary operands (rotated by the seed: every
    ordered pair is met by some seed) and one of the four arithmetic chain shapes."""
    if ctx.quick:
        bsel = sorted({(ctx.seed + d) % 10 + 1 for d in (0, 1, 3, 6)})      # {0,1,3,6} covers every difference mod 10
        chain = [CHAIN_PAIRS[ctx.seed % 4]]
    else:
        bsel, chain = list(range(1, 11)), CHAIN_PAIRS
    cfg = mc_cfg(ctx, "MC_ConstEval_pool", BSel=tla_set(bsel), ChainSel=tla_set(chain))
    # anti-vacuity: every action of the model fires (coverage on a small block, run beside the pool run;
    # -coverage on the whole pool exhausts the heap)
    ccfg = mc_cfg(ctx, "MC_ConstEval_cov", ClsSel=tla_set(["not", "narrow"]), TySel=tla_set(["u8", "u64"]), BSel=tla_set([1, 4, 7]))
    with ThreadPoolExecutor(max_workers=2) as ex:
        fcov = ex.submit(lambda: ctx.tlc("MC_ConstEval", ccfg, workers=1, xss="256m", coverage=True,
                                         name="MC_ConstEval_cov", count=False))
        fpool = ex.submit(lambda: ctx.tlc("MC_ConstEval", cfg, workers=4, xss="256m", xmx="6g",
                                          name="MC_ConstEval_pool", timeout=3000))
        r, cov = fpool.result(), fcov.result()
    actions = cov.coverage_actions()
    for a in ("Init", "RunTime", "CompileTime", "FoldIR"):
        if actions.get(a, (0, 0))[0] == 0:
            raise ToolError("ConstEval.tla: action %s never fires" % a)
    out = [] if r.violated else r.printed("REPLAY")
    out.sort(key=case_key)
    for i, c in enumerate(out):
        c["id"] = "k%05d" % i
        c["n"] = i
    return out, r, actions, {"BSel": bsel, "ChainSel": chain}


# ------------------------------------------------------------------ rendering
def launder(e):
    if e["k"] == "lit":
        return {"k": "call", "f": "id_" + e["t"], "args": [e]}
    out = dict(e)
    for f in ("l", "r", "e"):
        if f in out and isinstance(out[f], dict):
            out[f] = launder(out[f])
    if "es" in out:
        out["es"] = [launder(x) for x in out["es"]]
    return out


def first_lit(e):
    """Path to the left-most literal of e -> (literal, rebuilt expression with that literal replaced by var x)."""
    if e["k"] == "lit":
        return e, {"k": "var", "x": "x"}
    for f in ("l", "e"):
        if f in e and isinstance(e[f], dict):
            lit, sub = first_lit(e[f])
            out = dict(e)
            out[f] = sub
            return lit, out
    raise ValueError(e)


def header():
    return "script;\nfn main() {}\n"


def src_const(cases):
    lines = [header()]
    for c in cases:
        lines.append("const C_%05d: %s = %s;" % (c["n"], c["ty"], R.expr(c["e"])))
    for c in cases:
        lines.append("#[test] fn t%d() { log(C_%05d); }" % (c["n"], c["n"]))
    return "\n".join(lines) + "\n"


def is_lit_bin(c):
    e = c["e"]
    return e["k"] == "bin" and e["l"]["k"] == "lit" and e["r"]["k"] == "lit"


def src_constfn(cases):
    """The operation behind two const fns whose parameter names collide: `fl(a, b) = cf(b, a)`, `cf(a, b) = a op b`,
    `const C = fl(R, L)` (argument binding of compile-time function application)."""
    lines = [header()]
    for c in cases:
        e = c["e"]
        tl, tr = e["l"]["t"], e["r"]["t"]
        body = dict(e)
        body["l"], body["r"] = {"k": "var", "x": "a"}, {"k": "var", "x": "b"}
        lines.append("fn cf_%05d(a: %s, b: %s) -> %s { %s }" % (c["n"], tl, tr, c["ty"], R.expr(body)))
        lines.append("fn fl_%05d(a: %s, b: %s) -> %s { cf_%05d(b, a) }" % (c["n"], tr, tl, c["ty"], c["n"]))
        lines.append("const C_%05d: %s = fl_%05d(%s, %s);" % (c["n"], c["ty"], c["n"], r_lit(e["r"]), r_lit(e["l"])))
    for c in cases:
        lines.append("#[test] fn t%d() { log(C_%05d); }" % (c["n"], c["n"]))
    return "\n".join(lines) + "\n"


def src_configurable(cases):
    lines = [header(), "configurable {"]
    for c in cases:
        lines.append("    C_%05d: %s = %s," % (c["n"], c["ty"], R.expr(c["e"])))
    lines.append("}")
    for c in cases:
        lines.append("#[test] fn t%d() { log(C_%05d); }" % (c["n"], c["n"]))
    return "\n".join(lines) + "\n"


def src_fold(cases):
    lines = [header()]
    for c in cases:
        lines.append("#[test] fn t%d() { log(%s); }" % (c["n"], R.expr(c["e"])))
    return "\n".join(lines) + "\n"


def src_ccp(cases):
    lines = [header(), IDS]
    for c in cases:
        lit, body = first_lit(c["e"])
        lines.append("#[test] fn t%d() { let x = id_%s(%s); if x == %s { log(%s); } else { log(x); log(x); } }"
                     % (c["n"], lit["t"], r_lit(lit), r_lit(lit), R.expr(body)))
    return "\n".join(lines) + "\n"


def src_runtime(cases):
    lines = [header(), IDS]
    for c in cases:
        lines.append("#[test] fn t%d() { log(%s); }" % (c["n"], R.expr(launder(c["e"]))))
    return "\n".join(lines) + "\n"


RENDER = {
    "a": (src_const, "debug"),
    "g": (src_configurable, "debug"),
    "h": (src_constfn, "debug"),
    "b": (src_fold, "release"),
    "p": (src_ccp, "release"),
    "c": (src_runtime, "debug"),
}


# ------------------------------------------------------------------ build / run with attribution of failures
class Groups:
    """Builds groups of cases under one rendering; splits groups whose build fails until every
    case has an observation of its own."""

    def __init__(self, ctx, rendering):
        self.ctx = ctx
        self.r = rendering
        self.src, self.profile = RENDER[rendering]
        self.obs = {}            # case n -> observation
        self.seq = 0
        self.builds = 0
        self.hook_verdicts = 0
        self.pending = []

    def pkg(self, cases):
        self.seq += 1
        pid = "c06%s%04d" % (self.r, self.seq)
        env = {"SWAY_VERIF_CONST_TRACE": ""}
        if self.r in ("a", "h"):
            env["SWAY_VERIF_CONST_TRACE"] = os.path.join(self.ctx.work, "hook-%s.ndjson" % pid)
        return {"id": pid, "files": {"src/main.sw": self.src(cases)}, "profile": self.profile, "env": env,
                "want": ["diag"]}, cases

    def set(self, c, k, out="", logs=(), code=(), detail=""):
        self.obs[c["n"]] = {"r": self.r, "k": k, "out": out, "logs": [list(x) for x in logs], "code": list(code),
                            "detail": detail}

    def add(self, groups):
        self.pending += [g for g in groups if g]

    def jobs(self):
        js = [self.pkg(g) for g in self.pending]
        self.pending = []
        self.builds += len(js)
        return js

    def hook_lines(self, rec):
        p = rec["env"].get("SWAY_VERIF_CONST_TRACE")
        if not p or not os.path.exists(p):
            return []
        out = []
        pat = re.compile(r'"name":"C_(\d+)","ok":(true|false),"panic":(true|false),"val":"(.*)')
        for line in open(p, errors="replace"):
            # (the hook cuts `val` at a fixed length, possibly inside an escape: do not rely on the line being valid JSON)
            m = pat.search(line)
            if m:
                out.append((int(m.group(1)), m.group(2) == "true", m.group(3) == "true", m.group(4).rstrip()[:300]))
        return out

    def digest(self, rec, cases, r):
        """Returns the groups that have to be rebuilt."""
        b = r["built"]
        by_n = {c["n"]: c for c in cases}
        if r["crashed"] or b is None or b.get("timeout"):
            # hard crash / hang of the compiler on this package: isolate by halving
            what = "crash" if (r["crashed"] or b is None) else "timeout"
            if len(cases) == 1:
                self.set(cases[0], "panic", detail=what + ": " + json.dumps(r["crashed"] or {})[-300:])
                return []
            h = len(cases) // 2
            return [cases[:h], cases[h:]]
        if b["ok"]:
            if r["runfailed"]:
                raise ToolError("C06: tests of %s could not be run: %s" % (rec["id"], json.dumps(r["runfailed"])[:500]))
            seen = set()
            for t in r["tests"]:
                m = re.match(r"t(\d+)$", t["test"])
                if not m or int(m.group(1)) not in by_n:
                    continue
                o = observe(t)
                self.set(by_n[int(m.group(1))], "ran", o["out"], o["logs"], o["code"])
                seen.add(int(m.group(1)))
            missing = [c for c in cases if c["n"] not in seen]
            if missing:
                raise ToolError("C06: %s built but tests %s produced no result" % (rec["id"], [c["n"] for c in missing][:5]))
            return []
        diag = b.get("diag") or ""
        panic = b.get("panic")
        if "Failed to compile std" in (b.get("err") or ""):
            # the compiler under test cannot build the standard library: nothing can be attributed to a case
            raise ToolError("C06: std does not compile with the tree under test (package %s): %s" % (rec["id"], diag[-800:]))
        errs = []
        for chunk in diag.split("____"):
            m = re.search(r"(?m)^error\b", chunk)
            if m:
                errs.append(chunk[m.start():].strip())
        if self.r in ("a", "h"):
            hook = self.hook_lines(rec)
            if hook and sorted(h[0] for h in hook) != sorted(by_n):
                raise ToolError("C06: hook H8 did not report exactly the const declarations of %s" % rec["id"])
            if hook and not all(ok and not pan for _, ok, pan, _ in hook):
                again = []
                for n, ok, pan, val in hook:
                    self.hook_verdicts += 1
                    if pan:
                        self.set(by_n[n], "panic", detail=val[:300])
                        log("[C06] compiler panic on const %s: %s" % (describe(by_n[n]["e"]), val[:120]))
                    elif ok:
                        again.append(by_n[n])          # evaluated: observe its value in a package that builds
                    else:
                        self.set(by_n[n], "cerror", detail=val[:200])
                return [again] if again else []
        # no per-declaration information: a single case takes the verdict, a group is halved
        if len(cases) == 1:
            if panic:
                self.set(cases[0], "panic", detail=panic[:300])
            elif errs and all((CONST_ERR in e or CFG_ERR in e) for e in errs):
                self.set(cases[0], "cerror", detail=errs[0][-300:])
            else:
                self.set(cases[0], "builderror", detail=(" ".join(errs) or b.get("err") or "")[-600:])
            return []
        h = len(cases) // 2
        return [cases[:h], cases[h:]]


def chunks(xs, n):
    return [xs[i:i + n] for i in range(0, len(xs), n)]


def drive(ctx, gs):
    """Build the pending groups of every rendering together (one pool of vh-exec processes per round)
    until every case has its observation."""
    rnd = 0
    while any(g.pending for g in gs):
        rnd += 1
        if rnd > 40:
            raise ToolError("C06: attribution of build failures does not converge")
        jobs = [(g, j) for g in gs for j in g.jobs()]
        log("[C06] build round %d: %s" % (rnd, ", ".join("%s x%d (%d cases)" % (g.r, sum(1 for h, _ in jobs if h is g),
                                                                          sum(len(j[1]) for h, j in jobs if h is g))
                                                   for g in gs if any(h is g for h, _ in jobs))))
        # big packages first
        jobs.sort(key=lambda x: -len(x[1][1]))
        res = run_packages(ctx, [j[0] for _, j in jobs], procs=PROCS)
        for g, (rec, cases) in jobs:
            g.add(g.digest(rec, cases, res[rec["id"]]))


# ------------------------------------------------------------------ trace validation
def validate_shard(ctx, idx, recs, tag="tr", cfg="Trace_ConstEval"):
    """One Trace_ConstEval run over recs. Returns (observations accepted, rejections)."""
    tp = os.path.join(ctx.work, "%s-%d.ndjson" % (tag, idx))
    write_ndjson(tp, recs)
    tr = ctx.tlc_trace("Trace_ConstEval", cfg, tp, name="%s-%d" % (tag, idx), timeout=3000)
    total = sum(len(r["obs"]) for r in recs)
    if tr.violated is None:
        return total, []
    m = re.search(r'<<"FIRST-UNMATCHED", (\d+), "rejected", (\d+)>>', tr.out)
    if tr.violated != "postcondition" or not m or int(m.group(1)) != len(recs) + 1:
        raise ToolError("Trace_ConstEval failed unexpectedly (%s); see work/%s/tlc-%s-%d.out" % (tr.violated, ctx.pid, tag, idx))
    rejections = []
    for rj in tr.printed("REJECT"):
        bad = recs[rj["l"] - 1]
        for j, ok in enumerate(rj["ok"]):
            if not ok:
                rejections.append({"case": bad, "obs": bad["obs"][j],
                                   "expected": {"sem": rj["sem"], "ce": rj["ce"], "fold": rj.get("fold")}})
    if len({id(r["case"]) for r in rejections}) != int(m.group(2)):
        raise ToolError("Trace_ConstEval: %s rejected records counted, %d printed" % (m.group(2), len(rejections)))
    return total - len(rejections), rejections


def validate(ctx, recs, shard=700, par=4, tag="tr", cfg="Trace_ConstEval"):
    if not recs:
        return 0, []
    shards = chunks(recs, max(1, min(shard, (len(recs) + par - 1) // par)))
    with ThreadPoolExecutor(max_workers=par) as ex:
        results = list(ex.map(lambda a: validate_shard(ctx, a[0], a[1], tag, cfg), enumerate(shards)))
    return sum(r[0] for r in results), [x for r in results for x in r[1]]


# ------------------------------------------------------------------ the IR pass on one instruction (vh-fold)
FOLD_OPS = {"add", "sub", "mul", "div", "mod", "and", "or", "xor", "shl", "shr", "eq", "lt", "gt"}


def fold_input(c):
    """The IR instruction a single-operator case is built around, or None."""
    e = c["e"]
    if e["k"] == "un" and e["e"]["k"] == "lit":
        return {"id": c["id"], "kind": "un", "op": "not", "ty": e["e"]["t"], "a": e["e"]["b"], "b": [], "bty": e["e"]["t"]}
    if e["k"] == "bin" and e["l"]["k"] == "lit" and e["r"]["k"] == "lit" and e["op"] in FOLD_OPS:
        return {"id": c["id"], "kind": "cmp" if e["op"] in ("eq", "lt", "gt") else "bin", "op": e["op"],
                "ty": e["l"]["t"], "a": e["l"]["b"], "b": e["r"]["b"], "bty": e["r"]["t"]}
    return None


def fold_records(ctx, sel):
    """Run the real const-folding pass on the instruction of every single-operator case."""
    inputs = [(c, fold_input(c)) for c in sel]
    inputs = [(c, i) for c, i in inputs if i]
    inp, outp = os.path.join(ctx.work, "fold.in.ndjson"), os.path.join(ctx.work, "fold.out.ndjson")
    write_ndjson(inp, [i for _, i in inputs])
    ctx.vh("vh-fold", ["--in", inp, "--out", outp])
    res = {r["id"]: r for r in read_ndjson(outp)}
    recs = []
    for c, _ in inputs:
        r = res.get(c["id"])
        if r is None:
            raise ToolError("vh-fold: no result for %s" % c["id"])
        if r.get("err"):
            raise ToolError("vh-fold: %s on %s" % (r["err"], describe(c["e"])))
        if r.get("panic"):
            o = {"r": "f", "k": "panic", "out": "", "logs": [], "code": [], "detail": r["panic"][:300]}
        elif r["folded"]:
            o = {"r": "f", "k": "folded", "out": "", "logs": [r["v"]], "code": [], "detail": ""}
        else:
            o = {"r": "f", "k": "notfolded", "out": "", "logs": [], "code": [], "detail": ""}
        recs.append({"id": c["id"], "cls": c["cls"], "ty": c["ty"], "e": c["e"], "obs": [o], "exp": c["expect"]["k"]})
    return recs


RNAME = {"a": "const declaration", "g": "configurable", "h": "const declaration calling const fns (fl(a,b) = cf(b,a))", "b": "function body (release, const-folding)",
         "p": "function body (release, ccp + const-folding)", "c": "run time (operands laundered)",
         "f": "IR instruction given to the const-folding pass"}


def op_key(c):
    """Key of a case: class, result type and the exact expression."""
    return "%s:%s:%s" % (c["cls"], c["ty"], describe(c["e"]))


def report_rejection(ctx, rj):
    c, o = rj["case"], rj["obs"]
    exp = rj["expected"]
    got = ("value %s" % [bytes(x).hex() for x in o["logs"]] if o["k"] == "ran" and o["out"] == "return"
           else "revert" if o["k"] == "ran"
           else "folded to %s" % bytes(o["logs"][0]).hex() if o["k"] == "folded"
           else {"cerror": "compile error", "panic": "COMPILER PANIC", "notfolded": "not folded"}.get(o["k"], o["k"]))
    want = ("value %s" % bytes(exp["sem"]["v"]).hex()) if exp["sem"]["k"] == "val" else "Abort"
    if o["r"] == "f":
        f = (exp.get("fold") or {}).get("f") or {}
        want = ("the folding rules give %s" % bytes(reversed(f.get("r", []))).hex()) if f.get("k") == "val" else "the folding rules do not fold"
    ctx.report("%s:%s" % (o["r"], op_key(c)),
               "%s as %s: %s; %s%s%s" % (describe(c["e"]), RNAME[o["r"]], got, "" if o["r"] == "f" else "run-time semantics: ", want,
                                                          (" (" + o["detail"][:160] + ")") if o.get("detail") else ""),
               {"case": {k: c[k] for k in ("id", "cls", "ty", "e")}, "sway": describe(c["e"]), "rendering": o["r"],
                "observed": o, "spec": exp})


# ------------------------------------------------------------------ main
def select(ctx, cases):
    flt = os.environ.get("C06_FILTER")          # development aid: only the cases whose key matches the regex
    if flt:
        return [c for c in cases if re.search(flt, op_key(c))]
    if not ctx.quick:
        return cases
    # quick: a VERIF_SEED-selected slice, stratified by class x operand type x top-level operator so that
    # every stratum is present
    strata = {}
    for c in cases:
        strata.setdefault((c["cls"], operand_type(c), c["e"].get("op") or c["e"].get("t") or c["e"]["k"]), []).append(c)
    out = []
    for k in sorted(strata):
        out += slice_for_seed(strata[k], ctx.seed, max(2, (len(strata[k]) + 9) // 10))
    return out


def operand_type(c):
    e = c["e"]
    while e["k"] != "lit":
        e = e.get("l") or e.get("e") or e["es"][0]
    return e["t"]


def run(ctx):
    cases, mc, actions, consts = enumerate_pool(ctx)
    if mc.violated:
        ctx.report("model:%s" % mc.violated,
                   "ConstEval.tla: the compiler's evaluators as transcribed violate %s" % mc.violated,
                   {"tlc": mc.counterexample()[:6000]})
        return ctx.finish("model_checking", {"traces_validated_against_impl": 0, "samples": [], "constants": consts})
    sel = select(ctx, cases)
    log("[C06] pool %d cases, selected %d" % (len(cases), len(sel)))
    refused = lambda c: c["expect"]["k"] != "val" or c["ce"] != "val"
    # --- a: const declarations
    ga = Groups(ctx, "a")
    ga.add(chunks([c for c in sel if not refused(c)], BATCH_RUN) + chunks([c for c in sel if refused(c)], BATCH_REFUSE))
    # --- g: configurables (a slice: every 7th case that evaluates, and a few that must not)
    gg = Groups(ctx, "g")
    cfg_ok = [c for c in sel if not refused(c)][::7]
    cfg_bad = [c for c in sel if refused(c)][::(151 if not ctx.quick else 61)]
    gg.add(chunks(cfg_ok, BATCH_CFG) + [[c] for c in cfg_bad])
    # --- h: const fn application with colliding parameter names (a slice of the two-literal binary cases)
    gh = Groups(ctx, "h")
    hsel = [c for c in sel if is_lit_bin(c)]
    gh.add(chunks([c for c in hsel if not refused(c)][::2], BATCH_RUN) + chunks([c for c in hsel if refused(c)][::5], BATCH_REFUSE))
    # --- b: literals in function bodies, release
    gb = Groups(ctx, "b")
    gb.add(chunks(sel, BATCH_RUN))
    # --- p: ccp + folding (a slice: binary cases, shifts, chains)
    gp = Groups(ctx, "p")
    gp.add(chunks([c for c in sel if c["cls"] in ("bin", "shift", "chain", "b256") and c["e"]["k"] == "bin"][::3], BATCH_RUN))
    # --- c: run time
    gc = Groups(ctx, "c")
    gc.add(chunks(sel, BATCH_RUN))
    drive(ctx, [ga, gb, gc, gp, gg, gh])
    # --- trace records
    recs = []
    for c in sel:
        obs = [g.obs[c["n"]] for g in (gc, ga, gg, gh, gb, gp) if c["n"] in g.obs]
        recs.append({"id": c["id"], "cls": c["cls"], "ty": c["ty"], "e": c["e"], "obs": obs, "exp": c["expect"]["k"]})
    write_ndjson(os.path.join(ctx.work, "observations.ndjson"), recs)
    validated, rejections = validate(ctx, recs)
    # --- f: the const-folding pass itself on the instruction of every single-operator case
    frecs = fold_records(ctx, sel)
    fvalidated, frej = validate(ctx, frecs, tag="fold", cfg="Trace_ConstEvalFold")
    validated += fvalidated
    for rj in rejections + frej:
        report_rejection(ctx, rj)
    # --- binding self-test: corrupt one recorded value / turn one compile error into a value
    binding = self_test(ctx, recs, frecs) if not ctx.quick else None
    per = {g.r: len(g.obs) for g in (ga, gg, gh, gb, gp, gc)}
    per["f"] = len(frecs)
    kinds = {}
    for r in recs + frecs:
        for o in r["obs"]:
            kk = "%s:%s" % (o["r"], o["k"] if o["k"] != "ran" else o["out"])
            kinds[kk] = kinds.get(kk, 0) + 1
    sample = [{"sway": describe(r["e"]), "obs": [{k: o[k] for k in ("r", "k", "out", "logs")} for o in r["obs"]]}
              for r in (recs[:2] + recs[len(recs) // 2:len(recs) // 2 + 2] + recs[-2:])]
    return ctx.finish("model_checking", {
        "traces_validated_against_impl": validated,
        "exhaustive": True,
        "pool_cases": len(cases), "cases_selected": len(sel),
        "cases_per_class": {k: sum(1 for c in cases if c["cls"] == k) for k in sorted({c["cls"] for c in cases})},
        "observations_per_rendering": per, "observation_kinds": kinds,
        "packages_built": {g.r: g.builds for g in (ga, gg, gh, gb, gp, gc)},
        "const_declarations_judged_individually_by_hook": ga.hook_verdicts,
        "spec_abort_cases": sum(1 for c in sel if c["expect"]["k"] != "val"),
        "spec_refusal_cases": sum(1 for c in sel if c["expect"]["k"] == "val" and c["ce"] != "val"),
        "binding_self_test": binding,
        "action_coverage": actions, "constants": consts,
        "samples": sample,
    }, assumptions=[
        "Sem = SwaySem/IntSem is the run-time reference; it is bound to the VM by rendering c (operands laundered through #[inline(never)] identity functions, debug build)",
        "a compile error where the run-time value exists (a refusal) is accepted only for the classes ConstEval.tla lists by mechanism (CE(e) = Refuse); a value is never accepted unless it is Sem's value",
        "shift amounts >= 2^32 on u256/b256 operands are not in the pool (BigUint shifts allocate proportionally to the amount)",
        "the pool is finite and deterministic (TLC enumeration); VERIF_SEED only selects the quick slice",
    ])


def self_test(ctx, recs, frecs=()):
    """Binding: a corrupted value, a value in place of a compile error, and a compile error in place of a value must be rejected."""
    import copy
    muts = []
    for r in recs:
        for j, o in enumerate(r["obs"]):
            if o["r"] == "a" and o["k"] == "ran" and o["out"] == "return" and o["logs"] and not any(m[0] == "flip" for m in muts):
                m = copy.deepcopy(r)
                m["obs"] = [copy.deepcopy(o)]
                m["obs"][0]["logs"][0][-1] ^= 1
                muts.append(("flip", m))
            w = {"bool": 1}.get(r["ty"]) or WIDTH.get(r["ty"], 8)
            if o["r"] == "a" and o["k"] == "cerror" and r["exp"] == "abort" and not any(m[0] == "subst" for m in muts):
                m = copy.deepcopy(r)
                m["obs"] = [dict(o, k="ran", out="return", logs=[[0] * w], code=[])]
                muts.append(("subst", m))
            if o["r"] == "b" and o["k"] == "ran" and o["out"] == "revert" and not any(m[0] == "norevert" for m in muts):
                m = copy.deepcopy(r)
                m["obs"] = [dict(o, out="return", logs=[[0] * w], code=[])]
                muts.append(("norevert", m))
            if o["r"] == "c" and o["k"] == "ran" and o["out"] == "return" and not any(m[0] == "panic" for m in muts):
                m = copy.deepcopy(r)
                m["obs"] = [dict(o, r="a", k="panic", out="", logs=[], code=[])]
                muts.append(("panic", m))
    res = {}
    for name, m in muts:
        _, rej = validate_shard(ctx, 0, [m], tag="bind-" + name)
        res[name] = "rejected" if rej else "ACCEPTED"
        if not rej:
            raise ToolError("C06 binding self-test: Trace_ConstEval accepted a corrupted observation (%s)" % name)
    # the IR pass: a folded constant with one bit flipped, and "not folded" turned into a constant
    fm = []
    for r in frecs:
        o = r["obs"][0]
        if o["k"] == "folded" and r["ty"] == "u8" and r["e"]["k"] == "un" and not any(m[0] == "fold-flip" for m in fm):
            m = copy.deepcopy(r)
            m["obs"][0]["logs"][0][-2] ^= 0xFF            # what dropping the `& max` of the Not rule would produce
            fm.append(("fold-flip", m))
        if o["k"] == "notfolded" and r["exp"] == "abort" and not any(m[0] == "fold-trap" for m in fm):
            m = copy.deepcopy(r)
            m["obs"] = [dict(o, k="folded", logs=[[0] * (32 if r["ty"] in ("u256", "b256") else 8)])]
            fm.append(("fold-trap", m))
    for name, m in fm:
        _, rej = validate_shard(ctx, 0, [m], tag="bind-" + name, cfg="Trace_ConstEvalFold")
        res[name] = "rejected" if rej else "ACCEPTED"
        if not rej:
            raise ToolError("C06 binding self-test: Trace_ConstEval (fold) accepted a corrupted observation (%s)" % name)
    # the model itself: with the two repaired defects switched back on, TLC must find NoPanic violated
    for const, cls, ty in (("F12Fixed", ["bin"], ["u256"]), ("B256CmpFixed", ["b256"], [])):
        cfg = mc_cfg(ctx, "MC_ConstEval_un" + const, ClsSel=tla_set(cls), TySel=tla_set(ty), BSel=tla_set([1, 2]),
                     **{const: "FALSE"})
        r = ctx.tlc("MC_ConstEval", cfg, workers=1, xss="256m", name="MC_ConstEval_un" + const, count=False)
        res["model_without_" + const] = r.violated or "NO VIOLATION"
        # (u256 % 0 aborts at run time, so the panic is met first as "no compile error where run time aborts")
        if r.violated not in ("NoPanic", "NoSubstitution"):
            raise ToolError("C06 self-test: ConstEval.tla with %s = FALSE does not violate NoPanic / NoSubstitution" % const)
    return res


def replay(path):
    v = json.load(open(path))
    print(json.dumps(v, indent=1)[:6000])
    return 0
