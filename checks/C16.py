"""C16 Lexer and parser never crash and report in-bounds spans — ParseInv.tla + vh-parse.

1. TLC enumerates the input pool specified in ParseInv.tla: every string of lexical atoms of length
   <= 3 over the full alphabet (thorough: also length <= 4 over the core alphabet); every single
   token-level mutation of the seed files (thorough: plus all double insertions of state-changing atoms at
   neighbouring positions); mutation
   descriptors applied to every .sw file of the repository.
2. vh-parse renders each input, calls lex, lex_commented and parse_file under catch_unwind in
   watchdog-guarded child processes (abort / timeout are data) and emits one aggregated event.
3. Trace_ParseInv.tla accepts an event iff ParseInv!Parse is enabled (each call ended with a result
   or diagnostics) and SpanInvariant holds (spans in bounds, start <= end, on char boundaries).
"""
import os, json, re, concurrent.futures
from lib.common import *
from checks._fmt_common import repo_sw_files, seed_files, rel

TRUNC = 60
Q = 8
SPEC_FIELDS = ["len", "cont", "lex", "lexc", "parse", "nspans", "smin", "emax", "mind", "hi"]


def tlc_lines(res, tag):
    pat = re.compile(r'^<<"%s", (.*)>>$' % tag)
    out = []
    for line in res.out.splitlines():
        m = pat.match(line)
        if m:
            out.append(m.group(1))
    return out


def parse_seq(txt):
    """TLC prints <<"a", 1, <<..>>>>; convert to JSON."""
    return json.loads(txt.replace("<<", "[").replace(">>", "]"))


def job_key(job):
    if "atoms" in job:
        return "atoms:" + ",".join(job["atoms"])
    k = "file:" + rel(job["file"])
    if job.get("ops"):
        k += ":" + ";".join(",".join(str(x) for x in op) for op in job["ops"])
    return k


def build_jobs(ctx):
    jobs = []
    pool = {}
    # (a) atom strings
    g = ctx.tlc("MC_ParseInv", "Gen_Atoms3", workers=1, count=True, name="GenAtoms3", xmx="6g")
    atoms = [parse_seq(x) for x in tlc_lines(g, "A")]
    pool["atom_strings_len<=3_full_alphabet"] = len(atoms)
    if not ctx.quick:
        g4 = ctx.tlc("MC_ParseInv", "Gen_Atoms4", workers=1, count=True, name="GenAtoms4", xmx="8g", timeout=3000)
        a4 = [parse_seq(x) for x in tlc_lines(g4, "A")]
        pool["atom_strings_len<=4_core_alphabet"] = len(a4)
        seen = {tuple(a) for a in atoms}
        atoms += [a for a in a4 if tuple(a) not in seen]
    else:
        atoms = slice_for_seed(atoms, ctx.seed, 60000)
    pool["atom_strings_run"] = len(atoms)
    jobs += [{"atoms": a} for a in atoms]
    # (b) seed mutations
    seeds = seed_files()
    sf = os.path.join(ctx.work, "seedfiles.ndjson")
    write_ndjson(sf, [{"file": s} for s in seeds])
    sm = os.path.join(ctx.work, "seedmeta.ndjson")
    ctx.vh("vh-parse", ["--meta", "--in", sf, "--out", sm, "--trunc", TRUNC])
    meta = read_ndjson(sm)
    gm = ctx.tlc("MC_ParseInv", "Gen_Mut1", workers=1, env={"SEEDS": sm}, count=True, name="GenMut1",
                 xmx="6g", timeout=3000)
    muts = [parse_seq("<<" + x + ">>") for x in tlc_lines(gm, "M")]
    pool["seed_files"] = len(seeds)
    pool["single_mutations_enumerated"] = len(muts)
    if ctx.quick:
        muts = slice_for_seed(muts, ctx.seed, 40000)
    else:
        g2 = ctx.tlc("MC_ParseInv", "Gen_Mut2", workers=1, env={"SEEDS": sm}, count=True, name="GenMut2",
                     xmx="6g", timeout=3000)
        m2 = [parse_seq("<<" + x + ">>") for x in tlc_lines(g2, "M")]
        pool["double_mutations_enumerated"] = len(m2)
        muts += m2
    pool["seed_mutations_run"] = len(muts)
    for sd, ops in muts:
        jobs.append({"file": meta[sd - 1]["file"], "trunc": TRUNC, "ops": ops})
    # (c) every repository file, as is and under the mutation descriptors
    files = repo_sw_files()
    gd = ctx.tlc("MC_ParseInv", "Gen_Desc", workers=1, count=True, name="GenDesc")
    descs = [parse_seq(x) for x in tlc_lines(gd, "D")]
    pool["descriptors"] = len(descs)
    pool["repo_files_total"] = len(files)
    ff = os.path.join(ctx.work, "repofiles.ndjson")
    write_ndjson(ff, [{"file": f} for f in files])
    fm = os.path.join(ctx.work, "repometa.ndjson")
    ctx.vh("vh-parse", ["--meta", "--in", ff, "--out", fm])
    fmeta = read_ndjson(fm)
    for m in fmeta:
        jobs.append({"file": m["file"]})
    if ctx.quick:
        msel = slice_for_seed(fmeta, ctx.seed, 120)
        dsel = slice_for_seed(descs, ctx.seed, 60)
    else:
        msel, dsel = fmeta, descs
    n = 0
    for m in msel:
        nt = m["ntok"]
        if nt == 0:
            continue
        for op, q, atom in dsel:
            p = min(nt, q * nt // Q) + 1
            if op == "ins":
                jobs.append({"file": m["file"], "ops": [["ins", p, atom]]})
            else:
                jobs.append({"file": m["file"], "ops": [[op, min(p, nt)]]})
            n += 1
    pool["repo_files_mutated"] = len(msel)
    pool["repo_file_mutations_run"] = n
    for i, j in enumerate(jobs):
        j["id"] = i
    return jobs, pool


def run(ctx):
    jobs, pool = build_jobs(ctx)
    inp = os.path.join(ctx.work, "jobs.ndjson")
    outp = os.path.join(ctx.work, "events.ndjson")
    write_ndjson(inp, jobs)
    ctx.vh("vh-parse", ["--in", inp, "--out", outp, "--jobs", 4, "--timeout", 20 if ctx.quick else 30],
           timeout=10800)
    # merge identical events (exact equality of every field the spec reads)
    classes = {}
    order = []
    outcomes = {}
    n = 0
    with open(outp) as f:
        for line in f:
            line = line.strip()
            if not line:
                continue
            e = json.loads(line)
            n += 1
            proj = {k: e.get(k) for k in SPEC_FIELDS}
            key = json.dumps(proj, separators=(",", ":"), sort_keys=True)
            c = classes.get(key)
            if c is None:
                classes[key] = c = {"proj": proj, "ids": [], "msg": e.get("msg"), "signal": e.get("signal")}
                order.append(key)
            if len(c["ids"]) < 50:
                c["ids"].append(e["id"])
            c["n"] = c.get("n", 0) + 1
            oc = "%s/%s/%s" % (e.get("lex"), e.get("lexc"), e.get("parse"))
            outcomes[oc] = outcomes.get(oc, 0) + 1
    if n != len(jobs):
        raise ToolError("vh-parse returned %d events for %d jobs" % (n, len(jobs)))
    # trace validation in shards
    SH = 20000
    shards = [order[k:k + SH] for k in range(0, len(order), SH)]
    rejected = []

    def one(k):
        tp = os.path.join(ctx.work, "trace-%d.ndjson" % k)
        write_ndjson(tp, [dict(classes[key]["proj"], ev="Parse") for key in shards[k]])
        tr = ctx.tlc_trace("Trace_ParseInv", "Trace_ParseInv", tp, name="trace-%d" % k, timeout=3600)
        if tr.violated is None:
            return k, []
        if tr.violated != "postcondition":
            raise ToolError("trace validation failed unexpectedly: %s" % tr.violated)
        bad = [int(x) for x in re.findall(r'<<"REJECTED", (\d+)>>', tr.out)]
        if not bad:
            raise ToolError("trace validation failed without a REJECTED set (shard %d)" % k)
        return k, bad

    with concurrent.futures.ThreadPoolExecutor(max_workers=3) as ex:
        for k, bad in ex.map(one, range(len(shards))):
            rejected += [shards[k][b - 1] for b in bad]
    nviol_inputs = 0
    for key in rejected:
        c = classes[key]
        p = c["proj"]
        if any(p[x] not in ("ok", "diag") for x in ("lex", "lexc", "parse")):
            what = "lex/lex_commented/parse_file = %s/%s/%s (%s)" % (p["lex"], p["lexc"], p["parse"], c.get("msg") or c.get("signal"))
        else:
            what = "a reported span is out of bounds or not on a char boundary: len=%s smin=%s emax=%s mind=%s hi=%s cont=%s" % (
                p["len"], p["smin"], p["emax"], p["mind"], p["hi"], p["cont"])
        nviol_inputs += c["n"]
        # one report per distinct input of the class (up to 50 recorded ids)
        for jid in c["ids"]:
            job = jobs[jid]
            ctx.report(job_key(job), "%s [%s]" % (what, job_key(job)),
                       {"job": job, "event": p, "msg": c.get("msg"), "inputs_in_class": c["n"]})
    multibyte = sum(c["n"] for c in classes.values() if c["proj"]["cont"])
    selftest = None
    if not ctx.quick:
        good = [k for k in order if k not in set(rejected) and classes[k]["proj"]["nspans"] > 0 and classes[k]["proj"]["cont"]][:30]
        if len(good) >= 4:
            import copy
            mut = [copy.deepcopy(classes[k]["proj"]) for k in good]
            mut[0]["emax"] = mut[0]["len"] + 1                 # span end beyond the input
            mut[1]["hi"] = [mut[1]["cont"][0]]                 # end point inside a character
            mut[2]["parse"] = "panic"                          # a crash
            mut[3]["mind"] = -1                                # start > end
            tp = os.path.join(ctx.work, "trace-self.ndjson")
            write_ndjson(tp, [dict(m, ev="Parse") for m in mut])
            tr = ctx.tlc_trace("Trace_ParseInv", "Trace_ParseInv", tp, name="trace-self", count=False)
            bad = sorted(int(x) for x in re.findall(r'<<"REJECTED", (\d+)>>', tr.out))
            selftest = bad == [1, 2, 3, 4]
            if not selftest:
                raise ToolError("binding self-test failed: corrupted events 1-4, rejected %s" % bad)
    return ctx.finish("exploration", {
        "evaluations": n,
        "distinct_nontrivial": len(classes),
        "rule": "Trace_ParseInv.tla: ParseInv!Parse enabled only for outcomes ok|diag of lex, lex_commented and "
                "parse_file (no action for panic/abort/timeout/silent); SpanInvariant: 0 <= start <= end <= len "
                "and no span end point on a UTF-8 continuation byte",
        "outcomes_lex/lexc/parse": outcomes,
        "inputs_with_multibyte_characters": multibyte,
        "event_classes_rejected": len(rejected),
        "inputs_rejected": nviol_inputs,
        "pool": pool,
        "trace_shards": len(shards),
        "binding_selftest_corrupted_events_rejected": selftest,
        "samples": [dict(job=jobs[classes[k]["ids"][0]], event=classes[k]["proj"]) for k in (order[:2] + order[-2:])],
    }, assumptions=[
        "thin model (DESIGN section 7): TLC decides only the accept rule; its contribution is the specified, "
        "exhaustively enumerated input pool (atom strings, single mutations) -- level claimed: exploration",
        "spans seen: all lex_commented token/group/comment spans, all diagnostics (errors, warnings) with their "
        "label spans, module kind / item / attribute spans; expression-level AST spans are not walked",
        "spans are aggregated per input (min start, max end, min length, end points addressing non-ASCII bytes); "
        "an offset addressing an ASCII byte or equal to len is a char boundary by definition of UTF-8",
        "experimental features: default; parse_file only (parse_module_kind not called)",
        "watchdog: %d s per input; stack overflow / abort detected as child death" % (20 if ctx.quick else 30),
    ])


def replay(path):
    import subprocess
    v = json.load(open(path))
    job = v["replay"]["job"]
    tmp = path + ".job.json"
    with open(tmp, "w") as f:
        f.write(json.dumps(job) + "\n")
    exe = os.path.join(VH, "target", "release", "vh-parse")
    p = subprocess.run([exe, "--show", "--in", tmp], stdout=subprocess.PIPE, text=True)
    print(p.stdout)
    print("ParseInv allows only outcomes ok|diag and spans within [0,len] on char boundaries; recorded event:")
    print(json.dumps(v["replay"]["event"]))
    return 0
