---- MODULE PidLock ----
EXTENDS Naturals, Sequences, FiniteSets, TLC
CONSTANTS Markers,     \* processes that mark the file dirty (lock) and later release
          Checkers,    \* processes that call is_file_dirty (which runs cleanup_stale_files first, then is_locked)
          AtomicPublish \* BOOLEAN: repaired lock(): write temp + rename
Procs == Markers \cup Checkers
NOFILE == 0
\* File system: the directory entry points to an inode (or NOFILE); inode contents: 101 | pid
VARIABLES dirEntry, content, nextInode,
          alive, pc, handle, readVal, result, holds
vars == <<dirEntry, content, nextInode, alive, pc, handle, readVal, result, holds>>

Init == /\ dirEntry = NOFILE /\ content = [i \in 1..6 |-> 102] /\ nextInode = 1
        /\ alive = [p \in Procs |-> TRUE]
        /\ pc = [p \in Procs |-> IF p \in Markers THEN "m_start" ELSE "c_start"]
        /\ handle = [p \in Procs |-> NOFILE] /\ readVal = [p \in Procs |-> 102]
        /\ result = [p \in Procs |-> "none"] /\ holds = [p \in Procs |-> FALSE]

Step(p, from, to) == pc[p] = from /\ alive[p] /\ pc' = [pc EXCEPT ![p] = to]
PidActive(v) == v \in Procs /\ alive[v]

\* ---- get_locker_pid as sub-steps: open+read ; parse+ps ; maybe remove.  Used by release(), is_locked()
\* generic reader: states  X_read -> X_decide -> (X_remove ->) X_out ; result[p] \in {"locked_by_other","free"}
Read(p, from, to) == /\ Step(p, from, to)
                     /\ readVal' = [readVal EXCEPT ![p] = IF dirEntry = NOFILE THEN 100 ELSE content[dirEntry]]
                     /\ UNCHANGED <<dirEntry, content, nextInode, alive, handle, result, holds>>
\* decide: parse ok & pid active -> Some(pid); parse ok & dead -> remove_file; parse fail/nofile -> None
Decide(p, from, toRemove, toOut) ==
    /\ pc[p] = from /\ alive[p]
    /\ LET v == readVal[p] IN
       IF v \in Procs /\ ~alive[v]
       THEN /\ pc' = [pc EXCEPT ![p] = toRemove] /\ UNCHANGED result
       ELSE /\ pc' = [pc EXCEPT ![p] = toOut]
            /\ result' = [result EXCEPT ![p] = IF v \in Procs /\ v # p THEN "locked_by_other" ELSE "free"]
    /\ UNCHANGED <<dirEntry, content, nextInode, alive, handle, readVal, holds>>
Remove(p, from, to) == /\ Step(p, from, to) /\ dirEntry' = NOFILE
                       /\ result' = [result EXCEPT ![p] = "free"]
                       /\ UNCHANGED <<content, nextInode, alive, handle, readVal, holds>>

\* ---- cleanup_stale_files (runs in PidFileLocking::new): open+read ; parse ; remove if unparsable or dead
CleanRead(p, from, to) == Read(p, from, to)
CleanDecide(p, from, toRemove, toOut) ==
    /\ pc[p] = from /\ alive[p]
    /\ LET v == readVal[p] IN
       pc' = [pc EXCEPT ![p] = IF v = 100 THEN toOut
                                ELSE IF v \in Procs /\ alive[v] THEN toOut ELSE toRemove]
    /\ UNCHANGED <<dirEntry, content, nextInode, alive, handle, readVal, result, holds>>
CleanRemove(p, from, to) == /\ Step(p, from, to) /\ dirEntry' = NOFILE
                            /\ UNCHANGED <<content, nextInode, alive, handle, readVal, result, holds>>

\* ---- Marker: new() [cleanup], lock() = release() [is_locked -> remove] ; create ; write ; then holds ; later release
MCreate(p) == /\ Step(p, "m_create", "m_write")
              /\ IF AtomicPublish
                 THEN /\ handle' = [handle EXCEPT ![p] = nextInode] /\ content' = [content EXCEPT ![nextInode] = 101]
                      /\ nextInode' = nextInode + 1 /\ UNCHANGED dirEntry          \* temp file, not yet linked
                 ELSE IF dirEntry = NOFILE
                      THEN /\ dirEntry' = nextInode /\ handle' = [handle EXCEPT ![p] = nextInode]
                           /\ content' = [content EXCEPT ![nextInode] = 101] /\ nextInode' = nextInode + 1
                      ELSE /\ handle' = [handle EXCEPT ![p] = dirEntry] /\ content' = [content EXCEPT ![dirEntry] = 101]  \* truncate
                           /\ UNCHANGED <<dirEntry, nextInode>>
              /\ UNCHANGED <<alive, readVal, result, holds>>
MWrite(p) == /\ Step(p, "m_write", IF AtomicPublish THEN "m_rename" ELSE "m_locked")
             /\ content' = [content EXCEPT ![handle[p]] = p]
             /\ holds' = [holds EXCEPT ![p] = ~AtomicPublish]
             /\ UNCHANGED <<dirEntry, nextInode, alive, handle, readVal, result>>
MRename(p) == /\ Step(p, "m_rename", "m_locked") /\ dirEntry' = handle[p]
              /\ holds' = [holds EXCEPT ![p] = TRUE]
              /\ UNCHANGED <<content, nextInode, alive, handle, readVal, result>>
MRelease(p) == /\ Step(p, "m_locked", "m_rel_read") /\ holds' = [holds EXCEPT ![p] = FALSE]
               /\ UNCHANGED <<dirEntry, content, nextInode, alive, handle, readVal, result>>
Marker(p) ==
    \/ CleanRead(p, "m_start", "m_clean_decide") \/ CleanDecide(p, "m_clean_decide", "m_clean_remove", "m_lk_read") \/ CleanRemove(p, "m_clean_remove", "m_lk_read")
    \/ Read(p, "m_lk_read", "m_lk_decide") \/ Decide(p, "m_lk_decide", "m_lk_remove", "m_lk_out") \/ Remove(p, "m_lk_remove", "m_lk_out")
    \/ (/\ pc[p] = "m_lk_out" /\ alive[p]      \* release(): if locked by other -> Err (give up), else remove_file then create
        /\ IF result[p] = "locked_by_other" THEN pc' = [pc EXCEPT ![p] = "m_failed"] /\ UNCHANGED dirEntry
           ELSE pc' = [pc EXCEPT ![p] = "m_create"] /\ dirEntry' = NOFILE
        /\ UNCHANGED <<content, nextInode, alive, handle, readVal, result, holds>>)
    \/ MCreate(p) \/ MWrite(p) \/ MRename(p) \/ MRelease(p)
    \/ Read(p, "m_rel_read", "m_rel_decide") \/ Decide(p, "m_rel_decide", "m_rel_remove", "m_rel_out") \/ Remove(p, "m_rel_remove", "m_rel_out")
    \/ (/\ Step(p, "m_rel_out", "m_done")
        /\ dirEntry' = IF result[p] = "locked_by_other" THEN dirEntry ELSE NOFILE
        /\ UNCHANGED <<content, nextInode, alive, handle, readVal, result, holds>>)

\* ---- Checker: is_file_dirty = new() [cleanup] ; is_locked()
Checker(p) ==
    \/ CleanRead(p, "c_start", "c_clean_decide") \/ CleanDecide(p, "c_clean_decide", "c_clean_remove", "c_read") \/ CleanRemove(p, "c_clean_remove", "c_read")
    \/ Read(p, "c_read", "c_decide") \/ Decide(p, "c_decide", "c_remove", "c_done") \/ Remove(p, "c_remove", "c_done")

Crash(p) == /\ alive[p] /\ p \in Markers /\ pc[p] \notin {"m_done", "m_failed"}
            /\ Cardinality({q \in Procs : ~alive[q]}) < 1
            /\ alive' = [alive EXCEPT ![p] = FALSE] /\ holds' = [holds EXCEPT ![p] = FALSE]
            /\ UNCHANGED <<dirEntry, content, nextInode, pc, handle, readVal, result>>

Next == \E p \in Procs : (p \in Markers /\ Marker(p)) \/ (p \in Checkers /\ Checker(p)) \/ Crash(p)
Spec == Init /\ [][Next]_vars

\* A flag set by a still-running process stays visible: while p holds (lock() returned, release not started, alive),
\* the directory entry must exist and contain p's pid  (so that any complete check returns "locked_by_other").
FlagVisible == \A p \in Markers : holds[p] => (dirEntry # NOFILE /\ content[dirEntry] = p)
\* and a complete check started while p holds must not answer free: strengthen via the state predicate above.
====
