---- MODULE LspSched ----
EXTENDS Naturals, Sequences, FiniteSets, TLC
CONSTANTS NChange, NWait, CheckPoints,
          FixNotify,          \* BOOLEAN: create+enable Notified before the checks
          OpenMode,           \* "late" (as in code) | "presend" | "none"
          FixClearRetrigger   \* BOOLEAN: worker clears retrigger when it picks up a request

Changes == 1..NChange
Waiters == (NChange+1)..(NChange+NWait)
Handlers == {0} \cup Changes \cup Waiters     \* 0 = didOpen
NONE == 99

VARIABLES isCompiling, retrigger, chan, lastState, epoch,      \* shared
          wpc, wver, wchk, waborted,                           \* worker thread
          hpc, hsnap, token,                                   \* handlers (one tokio task)
          docVersion, compiledVersion, nextChange              \* ghost
shared == <<isCompiling, retrigger, chan, lastState, epoch>>
wvars  == <<wpc, wver, wchk, waborted>>
ghost  == <<docVersion, compiledVersion, nextChange>>
vars == <<shared, wvars, hpc, hsnap, token, ghost>>

Init == /\ isCompiling = FALSE /\ retrigger = FALSE /\ chan = <<>> /\ lastState = "Uninit" /\ epoch = 0
        /\ wpc = "recv" /\ wver = 0 /\ wchk = 0 /\ waborted = FALSE
        /\ hpc = [h \in Handlers |-> "idle"] /\ hsnap = [h \in Handlers |-> 0] /\ token = NONE
        /\ docVersion = 0 /\ compiledVersion = NONE /\ nextChange = 1

\* ---------------- worker thread (server_state.rs spawn_compilation_thread) ----------------
W(pc, npc) == wpc = pc /\ wpc' = npc
WRecv == /\ W("recv", IF FixClearRetrigger THEN "clearAtPickup" ELSE "setCompiling") /\ chan # <<>>
         /\ wver' = Head(chan) /\ chan' = Tail(chan)
         /\ UNCHANGED <<isCompiling, retrigger, lastState, epoch, wchk, waborted, hpc, hsnap, token, ghost>>
WClearAtPickup == /\ W("clearAtPickup", "setCompiling") /\ retrigger' = FALSE
         /\ UNCHANGED <<isCompiling, chan, lastState, epoch, wver, wchk, waborted, hpc, hsnap, token, ghost>>
WSetCompiling == /\ W("setCompiling", "compile") /\ isCompiling' = TRUE /\ wchk' = 0 /\ waborted' = FALSE
         /\ UNCHANGED <<retrigger, chan, lastState, epoch, wver, hpc, hsnap, token, ghost>>
WCheck == /\ wpc = "compile" /\ wchk < CheckPoints          \* check_should_abort
          /\ waborted' = retrigger
          /\ wpc' = IF retrigger THEN "result" ELSE wpc
          /\ wchk' = IF retrigger THEN wchk ELSE wchk + 1
          /\ UNCHANGED <<shared, wver, hpc, hsnap, token, ghost>>
WDone == /\ W("compile", "result") /\ wchk = CheckPoints
         /\ UNCHANGED <<shared, wver, wchk, waborted, hpc, hsnap, token, ghost>>
WResult == /\ W("result", "clearCompiling")
           /\ lastState' = IF waborted THEN "Failed" ELSE "Ok"
           /\ compiledVersion' = IF waborted THEN compiledVersion ELSE wver
           /\ UNCHANGED <<isCompiling, retrigger, chan, epoch, wver, wchk, waborted, hpc, hsnap, token, docVersion, nextChange>>
WClearCompiling == /\ W("clearCompiling", "clearRetrigger") /\ isCompiling' = FALSE
           /\ UNCHANGED <<retrigger, chan, lastState, epoch, wver, wchk, waborted, hpc, hsnap, token, ghost>>
WClearRetrigger == /\ W("clearRetrigger", "ifEmpty") /\ retrigger' = FALSE
           /\ UNCHANGED <<isCompiling, chan, lastState, epoch, wver, wchk, waborted, hpc, hsnap, token, ghost>>
WIfEmpty == /\ W("ifEmpty", "recv") /\ epoch' = (IF chan = <<>> THEN epoch + 1 ELSE epoch)   \* notify_waiters
           /\ UNCHANGED <<isCompiling, retrigger, chan, lastState, wver, wchk, waborted, hpc, hsnap, token, ghost>>
Worker == WRecv \/ WClearAtPickup \/ WSetCompiling \/ WCheck \/ WDone \/ WResult \/ WClearCompiling \/ WClearRetrigger \/ WIfEmpty

\* ---------------- handlers: all polled from one task => atomic between awaits ----------------
Yields(pc) == pc \in {"await", "done", "returned", "idle"}
H(h, pc, npc) == /\ hpc[h] = pc /\ token \in {NONE, h}
                 /\ hpc' = [hpc EXCEPT ![h] = npc]
                 /\ token' = IF Yields(npc) THEN NONE ELSE h
WaitEntry == IF FixNotify THEN "create" ELSE "check"
\* arrivals (the awaits before the synchronous part have completed)
ArriveOpen == /\ H(0, "idle", "load") /\ nextChange = 1 /\ docVersion = 0 /\ lastState = "Uninit" /\ chan = <<>> /\ wpc = "recv"
              /\ UNCHANGED <<shared, wvars, hsnap, ghost>>
OpenSent == hpc[0] \notin {"idle", "load", "setRetrigger", "drain", "presend", "send"}
ArriveChange(h) == /\ h \in Changes /\ h = nextChange /\ OpenSent
                   /\ H(h, "idle", "load") /\ nextChange' = nextChange + 1 /\ docVersion' = h
                   /\ UNCHANGED <<shared, wvars, hsnap, compiledVersion>>
ArriveWait(h) == /\ h \in Waiters /\ OpenSent /\ H(h, "idle", WaitEntry)
                 /\ UNCHANGED <<shared, wvars, hsnap, ghost>>
\* send_new_compilation_request
Load(h) == /\ H(h, "load", IF isCompiling THEN "setRetrigger" ELSE "drain")
           /\ UNCHANGED <<shared, wvars, hsnap, ghost>>
SetRetrigger(h) == /\ H(h, "setRetrigger", "drain") /\ retrigger' = TRUE
           /\ UNCHANGED <<isCompiling, chan, lastState, epoch, wvars, hsnap, ghost>>
Drain(h) == /\ H(h, "drain", IF OpenMode = "presend" THEN "presend" ELSE "send") /\ chan' = <<>>
            /\ UNCHANGED <<isCompiling, retrigger, lastState, epoch, wvars, hsnap, ghost>>
PreSend(h) == /\ H(h, "presend", "send") /\ isCompiling' = TRUE
            /\ UNCHANGED <<retrigger, chan, lastState, epoch, wvars, hsnap, ghost>>
AfterSend(h) == IF h = 0 THEN (IF OpenMode = "late" THEN "openSet" ELSE WaitEntry) ELSE "done"
Send(h) == /\ H(h, "send", AfterSend(h)) /\ chan = <<>> /\ chan' = <<h>>
           /\ UNCHANGED <<isCompiling, retrigger, lastState, epoch, wvars, hsnap, ghost>>
OpenSet == /\ H(0, "openSet", WaitEntry) /\ isCompiling' = TRUE
           /\ UNCHANGED <<retrigger, chan, lastState, epoch, wvars, hsnap, ghost>>
\* wait_for_parsing
Check(h) == /\ H(h, "check", IF ~isCompiling /\ lastState # "Uninit" THEN "checkEmpty" ELSE IF FixNotify THEN "await" ELSE "create")
            /\ UNCHANGED <<shared, wvars, hsnap, ghost>>
CheckEmpty(h) == /\ H(h, "checkEmpty", IF chan = <<>> THEN "returned" ELSE IF FixNotify THEN "await" ELSE "create")
            /\ UNCHANGED <<shared, wvars, hsnap, ghost>>
Create(h) == /\ H(h, "create", IF FixNotify THEN "check" ELSE "await") /\ hsnap' = [hsnap EXCEPT ![h] = epoch]
             /\ UNCHANGED <<shared, wvars, ghost>>
Await(h) == /\ hpc[h] = "await" /\ epoch # hsnap[h] /\ token = NONE
            /\ hpc' = [hpc EXCEPT ![h] = WaitEntry] /\ token' = h
            /\ UNCHANGED <<shared, wvars, hsnap, ghost>>
Handler == \/ ArriveOpen \/ OpenSet
           \/ \E h \in Handlers : ArriveChange(h) \/ ArriveWait(h) \/ Load(h) \/ SetRetrigger(h) \/ Drain(h) \/ PreSend(h) \/ Send(h)
                                  \/ Check(h) \/ CheckEmpty(h) \/ Create(h) \/ Await(h)
Next == Worker \/ Handler
Spec == Init /\ [][Next]_vars

\* ---------------- properties ----------------
AllArrived == \A h \in Handlers : hpc[h] # "idle"
Stuck == /\ wpc = "recv" /\ chan = <<>> /\ AllArrived
         /\ \A h \in Handlers : hpc[h] \in {"done", "returned", "await"}
         /\ \A h \in Handlers : hpc[h] = "await" => epoch = hsnap[h]
NoHang == Stuck => \A h \in Handlers : hpc[h] # "await"
NoLostEdit == Stuck => compiledVersion = docVersion
EarlyReturn == \A h \in Handlers : hpc[h] = "returned" => (wpc = "recv" \/ TRUE)
====
