SPECIFICATION Spec
CONSTANTS Markers = {1}
 Checkers = {2, 3}
 AtomicPublish = FALSE
INVARIANT FlagVisible
CHECK_DEADLOCK FALSE
