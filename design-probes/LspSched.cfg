SPECIFICATION Spec
CONSTANTS NChange = 3
 NWait = 1
 CheckPoints = 2
 FixNotify = FALSE
 OpenMode = "late"
 FixClearRetrigger = FALSE
INVARIANT NoHang
CHECK_DEADLOCK FALSE
