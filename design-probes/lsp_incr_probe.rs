use lsp_types::*;
use std::path::PathBuf;
use sway_lsp::{handlers::notification, server_state::ServerState};

fn diag_summary(state: &ServerState, ws_uri: &Url) -> Vec<String> {
    let mut out = vec![];
    for s in state.sessions.iter() {
        for (path, d) in s.value().diagnostics.read().iter() {
            for e in &d.errors { out.push(format!("E {} {}:{} {}", path.file_name().unwrap().to_string_lossy(), e.range.start.line, e.range.start.character, e.message.lines().next().unwrap_or(""))); }
        }
    }
    let _ = ws_uri;
    out.sort(); out
}
async fn open(state: &ServerState, path: &PathBuf) -> Url {
    let uri = Url::from_file_path(path).unwrap();
    let text = std::fs::read_to_string(path).unwrap();
    let params = DidOpenTextDocumentParams { text_document: TextDocumentItem { uri: uri.clone(), language_id: "sway".into(), version: 1, text } };
    notification::handle_did_open_text_document(state, params).await.unwrap();
    uri
}
async fn change_full(state: &ServerState, uri: &Url, version: i32, text: &str) {
    let params = DidChangeTextDocumentParams { text_document: VersionedTextDocumentIdentifier { uri: uri.clone(), version }, content_changes: vec![TextDocumentContentChangeEvent { range: None, range_length: None, text: text.into() }] };
    notification::handle_did_change_text_document(state, params).await.unwrap();
    state.wait_for_parsing().await;
}
#[tokio::main]
async fn main() {
    let dir = PathBuf::from(std::env::args().nth(1).unwrap());
    let state = ServerState::default();
    let main_uri = open(&state, &dir.join("src/main.sw")).await;
    println!("after open main: {:?}", diag_summary(&state, &main_uri));
    let b_uri = open(&state, &dir.join("src/b.sw")).await;
    println!("after open b: {:?}", diag_summary(&state, &main_uri));
    // edit b: change f's parameter type to bool -> a.sw's call f(1) must now be an error
    change_full(&state, &b_uri, 2, "library;\npub fn f(x: bool) -> u64 { if x { 1 } else { 0 } }\n").await;
    // give time
    tokio::time::sleep(std::time::Duration::from_millis(500)).await;
    state.wait_for_parsing().await;
    println!("incremental after edit b: {:?}", diag_summary(&state, &main_uri));
    // fresh server on same on-disk text? The LSP works on a temp clone; write the text to disk copy and open fresh.
    let dir2 = std::env::temp_dir().join("scratch-w2");
    let _ = std::fs::remove_dir_all(&dir2);
    copy_dir(&dir, &dir2);
    std::fs::write(dir2.join("src/b.sw"), "library;\npub fn f(x: bool) -> u64 { if x { 1 } else { 0 } }\n").unwrap();
    let fresh = ServerState::default();
    let main2 = open(&fresh, &dir2.join("src/main.sw")).await;
    println!("fresh: {:?}", diag_summary(&fresh, &main2));
    let _ = state.shutdown_server(); let _ = fresh.shutdown_server();
}
fn copy_dir(a: &PathBuf, b: &PathBuf) { std::fs::create_dir_all(b).unwrap(); for e in std::fs::read_dir(a).unwrap() { let e = e.unwrap(); let p = e.path(); let q = b.join(e.file_name()); if p.is_dir() { if e.file_name() != "out" { copy_dir(&p, &q); } } else { std::fs::copy(&p, &q).unwrap(); } } }
