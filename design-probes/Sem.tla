---- MODULE Sem ----
EXTENDS Naturals, Sequences, TLC, Json, IOUtils, FiniteSets
\* --- u64 as 8 little-endian bytes
W == 8
Zero == [i \in 1..W |-> 0]
FromNat(n) == [i \in 1..W |-> IF i = 1 THEN n % 256 ELSE IF i = 2 THEN (n \div 256) % 256 ELSE IF i = 3 THEN (n \div 65536) % 256 ELSE IF i = 4 THEN (n \div 16777216) % 256 ELSE 0]
RECURSIVE AddC(_,_,_,_,_)
AddC(a,b,i,c,acc) == IF i > W THEN <<acc, c>> ELSE LET s == a[i]+b[i]+c IN AddC(a,b,i+1, s \div 256, [acc EXCEPT ![i] = s % 256])
Add(a,b) == LET r == AddC(a,b,1,0,Zero) IN IF r[2] = 0 THEN [ok |-> TRUE, v |-> r[1]] ELSE [ok |-> FALSE, v |-> Zero]
RECURSIVE SubC(_,_,_,_,_)
SubC(a,b,i,c,acc) == IF i > W THEN <<acc, c>> ELSE LET s == a[i]-b[i]-c+256 IN SubC(a,b,i+1, IF s < 256 THEN 1 ELSE 0, [acc EXCEPT ![i] = s % 256])
Sub(a,b) == LET r == SubC(a,b,1,0,Zero) IN IF r[2] = 0 THEN [ok |-> TRUE, v |-> r[1]] ELSE [ok |-> FALSE, v |-> Zero]
RECURSIVE SumCol(_,_,_,_,_)
SumCol(a,b,k,i,acc) == IF i > W \/ i > k THEN acc ELSE LET j == k - i + 1 IN SumCol(a,b,k,i+1, IF j <= W THEN acc + a[i]*b[j] ELSE acc)
RECURSIVE MulC(_,_,_,_,_,_)
MulC(a,b,k,c,acc,ovf) == IF k > 2*W THEN <<acc, ovf \/ c # 0>>
   ELSE LET s == SumCol(a,b,k,1,0) + c IN
        IF k <= W THEN MulC(a,b,k+1, s \div 256, [acc EXCEPT ![k] = s % 256], ovf)
        ELSE MulC(a,b,k+1, s \div 256, acc, ovf \/ (s % 256 # 0))
Mul(a,b) == LET r == MulC(a,b,1,0,Zero,FALSE) IN IF ~r[2] THEN [ok |-> TRUE, v |-> r[1]] ELSE [ok |-> FALSE, v |-> Zero]
RECURSIVE LtFrom(_,_,_)
LtFrom(a,b,i) == IF i = 0 THEN FALSE ELSE IF a[i] # b[i] THEN a[i] < b[i] ELSE LtFrom(a,b,i-1)
Lt(a,b) == LtFrom(a,b,W)
RECURSIVE ToBE(_,_)
ToBE(a,i) == IF i = 0 THEN <<>> ELSE <<a[i]>> \o ToBE(a,i-1)

\* --- AST evaluation
Upd(env, x, v) == [y \in DOMAIN env \cup {x} |-> IF y = x THEN v ELSE env[y]]
RECURSIVE Eval(_,_)
Eval(e, env) ==
  IF e.k = "lit" THEN [ok |-> TRUE, v |-> FromNat(e.n)]
  ELSE IF e.k = "var" THEN [ok |-> TRUE, v |-> env[e.x]]
  ELSE IF e.k = "bin" THEN
     LET l == Eval(e.l, env) IN IF ~l.ok THEN l ELSE
     LET r == Eval(e.r, env) IN IF ~r.ok THEN r ELSE
       IF e.op = "add" THEN Add(l.v, r.v)
       ELSE IF e.op = "sub" THEN Sub(l.v, r.v)
       ELSE IF e.op = "mul" THEN Mul(l.v, r.v)
       ELSE IF e.op = "lt" THEN [ok |-> TRUE, v |-> IF Lt(l.v, r.v) THEN FromNat(1) ELSE Zero]
       ELSE [ok |-> TRUE, v |-> IF l.v = r.v THEN FromNat(1) ELSE Zero]
  ELSE [ok |-> FALSE, v |-> Zero]
\* statements: returns [ok, env, logs]
RECURSIVE Exec(_,_,_,_), ExecWhile(_,_,_,_,_)
Exec(ss, i, env, logs) ==
  IF i > Len(ss) THEN [ok |-> TRUE, env |-> env, logs |-> logs]
  ELSE LET s == ss[i] IN
    IF s.k = "let" \/ s.k = "set" THEN LET r == Eval(s.e, env) IN
         IF r.ok THEN Exec(ss, i+1, Upd(env, s.x, r.v), logs) ELSE [ok |-> FALSE, env |-> env, logs |-> logs]
    ELSE IF s.k = "log" THEN LET r == Eval(s.e, env) IN
         IF r.ok THEN Exec(ss, i+1, env, Append(logs, ToBE(r.v, W))) ELSE [ok |-> FALSE, env |-> env, logs |-> logs]
    ELSE IF s.k = "if" THEN LET c == Eval(s.c, env) IN
         IF ~c.ok THEN [ok |-> FALSE, env |-> env, logs |-> logs] ELSE
         LET b == Exec(IF c.v # Zero THEN s.t ELSE s.f, 1, env, logs) IN
         IF b.ok THEN Exec(ss, i+1, [x \in DOMAIN env |-> b.env[x]], b.logs) ELSE b
    ELSE IF s.k = "while" THEN LET w == ExecWhile(s, env, logs, 0, 1000) IN
         IF w.ok THEN Exec(ss, i+1, w.env, w.logs) ELSE w
    ELSE [ok |-> FALSE, env |-> env, logs |-> logs]
ExecWhile(s, env, logs, n, fuel) ==
  IF n >= fuel THEN [ok |-> FALSE, env |-> env, logs |-> logs]
  ELSE LET c == Eval(s.c, env) IN
    IF ~c.ok THEN [ok |-> FALSE, env |-> env, logs |-> logs]
    ELSE IF c.v = Zero THEN [ok |-> TRUE, env |-> env, logs |-> logs]
    ELSE LET b == Exec(s.b, 1, env, logs) IN
      IF b.ok THEN ExecWhile(s, [x \in DOMAIN env |-> b.env[x]], b.logs, n+1, fuel) ELSE b
Run(p) == LET r == Exec(p.body, 1, <<>>, <<>>) IN [logs |-> r.logs, aborted |-> ~r.ok]

Cases == ndJsonDeserialize(IOEnv.TRACE)
VARIABLE l
Init == l = 1
Next == /\ l <= Len(Cases)
        /\ LET c == Cases[l] r == Run(c.prog) IN
             /\ r.logs = c.logs /\ r.aborted = c.aborted
        /\ l' = l + 1
Spec == Init /\ [][Next]_l
Accepted == IF TLCGet("stats").diameter - 1 = Len(Cases) THEN TRUE ELSE Print(<<"first unmatched", TLCGet("stats").diameter>>, FALSE)
====
